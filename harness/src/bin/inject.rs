//! Preemption injection: runs the real crate with hook H4 so that, immediately before the k-th
//! atomic operation of one call (the *outer* call), complete calls of other agents run on the same
//! thread — the schedule "A is preempted after k atomic operations, B runs, A resumes", exactly
//! and deterministically.  Every atomic operation on a state word is recorded (hook H3) and
//! attributed to the agent whose call performed it.  One line per scenario:
//!
//! `<prim> <agents> <param> | S:<replay key> B<i>:<call> A<i>:<w>:<op>:<a>:<b>:<kind>:<ret> ... R<i>:<res> [V:<violation>]`
//!
//! The Lean acceptor (`alock-accept`) replays each line in the atomic-granularity model.
//!
//! usage: inject <prim> <depth> <inner>      enumerate: prefixes up to <depth> calls, <inner> = 1 | 2 injected calls
//!        inject replay <prim> <param> <key> one scenario (key as printed after `S:`)

use async_lock::__verif::{record_atomics, set_preempt_hook, set_starvation_oracle, take_atomic_log};
use async_lock::{
    Mutex, MutexGuard, MutexGuardArc, OnceCell, RwLock, RwLockReadGuard, RwLockReadGuardArc,
    RwLockUpgradableReadGuard, RwLockUpgradableReadGuardArc, RwLockWriteGuard, RwLockWriteGuardArc,
    Semaphore, SemaphoreGuard, SemaphoreGuardArc,
};
use std::cell::{Cell, RefCell};
use std::future::Future;
use std::io::Write;
use std::pin::Pin;
use std::rc::Rc;
use std::sync::Arc;
use std::sync::atomic::{AtomicBool, Ordering};
use std::task::{Context, Poll, Wake, Waker};

/// one flag per agent: its waker was called and it has not been polled since
struct Flag(AtomicBool);

impl Wake for Flag {
    fn wake(self: Arc<Self>) {
        self.0.store(true, Ordering::SeqCst);
    }
}

struct Wakers(Vec<Arc<Flag>>);

impl Wakers {
    fn new(n: usize) -> Self {
        Wakers((0..n).map(|_| Arc::new(Flag(AtomicBool::new(false)))).collect())
    }
    fn any_woken(&self) -> bool {
        self.0.iter().any(|f| f.0.load(Ordering::SeqCst))
    }
    fn poll<T>(&self, a: usize, f: &mut BoxFut<T>) -> Poll<T> {
        self.0[a].0.store(false, Ordering::SeqCst);
        let w = Waker::from(self.0[a].clone());
        let mut cx = Context::from_waker(&w);
        f.as_mut().poll(&mut cx)
    }
    fn forget(&self, a: usize) {
        self.0[a].0.store(false, Ordering::SeqCst);
    }
}

type BoxFut<T> = Pin<Box<dyn Future<Output = T>>>;

/// Owns a heap value and hands out a `'static` reference to it. The reference must not be used
/// after the owner is dropped: every `Prim` keeps the owner in its last field, so everything that
/// borrows the value (slots with futures and guards) is dropped first.
struct Owner<T>(*mut T);

impl<T> Owner<T> {
    fn new(v: T) -> (Self, &'static T) {
        let p = Box::into_raw(Box::new(v));
        (Owner(p), unsafe { &*p })
    }
}

impl<T> Drop for Owner<T> {
    fn drop(&mut self) {
        unsafe { drop(Box::from_raw(self.0)) }
    }
}

/// A primitive with a fixed set of agents, each of which performs one call at a time.
trait Prim: 'static {
    fn name() -> &'static str;
    fn agents() -> usize;
    fn params() -> Vec<String>;
    fn new(param: &str) -> Self;
    /// what is printed after the number of agents in the header
    fn header_param(param: &str) -> String {
        param.to_string()
    }
    /// the calls agent `a` may make now
    fn calls(&self, a: usize) -> Vec<&'static str>;
    fn exec(&self, a: usize, call: &str) -> &'static str;
    fn addrs(&self) -> Vec<usize>;
    /// a violation of the property visible in what the agents hold (`nested`: evaluated while an
    /// outer call is in flight)
    fn monitor(&self, nested: bool) -> Option<String>;
    /// probes made once, after the last call of a scenario (they may disturb the primitive)
    fn final_probe(&self) -> Option<String> {
        None
    }
}

struct Run<P: Prim> {
    p: P,
    addrs: Vec<usize>,
    ev: RefCell<Vec<String>>,
    viol: RefCell<Option<String>>,
    depth: Cell<usize>,
}

impl<P: Prim> Run<P> {
    fn drain(&self, agent: usize) {
        for op in take_atomic_log() {
            let w = self.addrs.iter().position(|&x| x == op.addr).map(|x| x as i64).unwrap_or(9);
            let (kind, ret) = match (op.op, op.ret) {
                (_, None) => ("none", 0),
                ("cas", Some(v)) | ("casw", Some(v)) => (if op.ok { "ok" } else { "err" }, v),
                (_, Some(v)) => ("val", v),
            };
            // masks are printed as signed numbers (`!WRITER_BIT` = -2)
            let a = if op.op == "fand" { (op.args[0] as i64).to_string() } else { op.args[0].to_string() };
            self.ev.borrow_mut().push(format!("A{}:{}:{}:{}:{}:{}:{}", agent, w, op.op, a, op.args[1], kind, ret));
        }
    }

    fn call(&self, a: usize, c: &str) {
        self.ev.borrow_mut().push(format!("B{}:{}", a, c));
        self.depth.set(self.depth.get() + 1);
        let r = self.p.exec(a, c);
        self.depth.set(self.depth.get() - 1);
        self.drain(a);
        self.ev.borrow_mut().push(format!("R{}:{}", a, r));
        if self.viol.borrow().is_none() {
            if let Some(v) = self.p.monitor(self.depth.get() > 0) {
                let v = v.replace(' ', "_");
                self.ev.borrow_mut().push(format!("V:{}", v));
                *self.viol.borrow_mut() = Some(v);
            }
        }
    }
}

struct Outcome {
    line: String,
    fired: bool,
    /// an inner choice index was out of range
    oob: bool,
    viol: Option<String>,
}

/// prefix calls, then `outer` with the inner calls `inner` (indices into the list of calls that
/// are possible at that moment) injected before its k-th atomic operation
fn scenario<P: Prim>(param: &str, prefix: &[(usize, String)], outer: (usize, &str), k: usize, inner: &[usize]) -> Outcome {
    record_atomics(true);
    let _ = take_atomic_log();
    let p = P::new(param);
    let addrs = p.addrs();
    let run = Rc::new(Run { p, addrs, ev: RefCell::new(Vec::new()), viol: RefCell::new(None), depth: Cell::new(0) });
    let _ = take_atomic_log();
    for (a, c) in prefix {
        run.call(*a, c);
    }
    let fired = Rc::new(Cell::new(false));
    let oob = Rc::new(Cell::new(false));
    {
        let (run2, fired2, oob2) = (run.clone(), fired.clone(), oob.clone());
        let inner: Vec<usize> = inner.to_vec();
        let outer_agent = outer.0;
        let mut count = 0usize;
        set_preempt_hook(Some(Box::new(move || {
            if count == k {
                fired2.set(true);
                run2.drain(outer_agent);
                for &j in &inner {
                    let mut all: Vec<(usize, &'static str)> = Vec::new();
                    for b in 0..P::agents() {
                        if b != outer_agent {
                            for c in run2.p.calls(b) {
                                all.push((b, c));
                            }
                        }
                    }
                    if j >= all.len() {
                        oob2.set(true);
                        break;
                    }
                    run2.call(all[j].0, all[j].1);
                }
            }
            count += 1;
        })));
    }
    run.call(outer.0, outer.1);
    set_preempt_hook(None);
    if run.viol.borrow().is_none() {
        let v = run.p.final_probe();
        let _ = take_atomic_log();
        if let Some(v) = v {
            let v = v.replace(' ', "_");
            run.ev.borrow_mut().push(format!("V:{}", v));
            *run.viol.borrow_mut() = Some(v);
        }
    }
    set_starvation_oracle(None);
    let key = format!(
        "S:{};{}.{};{};{}",
        prefix.iter().map(|(a, c)| format!("{}.{}", a, c)).collect::<Vec<_>>().join(","),
        outer.0,
        outer.1,
        k,
        inner.iter().map(|j| j.to_string()).collect::<Vec<_>>().join(",")
    );
    let line = format!("{} {} {} | {} {}", P::name(), P::agents(), P::header_param(param), key, run.ev.borrow().join(" "));
    let viol = run.viol.borrow().clone();
    Outcome { line, fired: fired.get(), oob: oob.get(), viol }
}

struct Stats {
    scenarios: usize,
    violations: usize,
}

fn emit(o: &Outcome, out: &mut dyn Write, st: &mut Stats) {
    st.scenarios += 1;
    if o.viol.is_some() {
        st.violations += 1;
    }
    writeln!(out, "{}", o.line).unwrap();
}

/// the calls possible after `prefix`
fn calls_after<P: Prim>(param: &str, prefix: &[(usize, String)]) -> Vec<(usize, &'static str)> {
    record_atomics(true);
    let p = P::new(param);
    let addrs = p.addrs();
    let run = Run { p, addrs, ev: RefCell::new(Vec::new()), viol: RefCell::new(None), depth: Cell::new(0) };
    for (a, c) in prefix {
        run.call(*a, c);
    }
    set_starvation_oracle(None);
    let used = prefix.iter().map(|(a, _)| *a + 1).max().unwrap_or(0);
    let mut all = Vec::new();
    // agents are interchangeable: a fresh agent is always the one with the smallest unused index
    for a in 0..P::agents().min(used + 1) {
        for c in run.p.calls(a) {
            all.push((a, c));
        }
    }
    all
}

fn explore<P: Prim>(param: &str, prefix: &mut Vec<(usize, String)>, depth: usize, inner_n: usize, out: &mut dyn Write, st: &mut Stats) {
    let calls = calls_after::<P>(param, prefix);
    for (a, c) in calls {
        let mut k = 0;
        loop {
            let o = scenario::<P>(param, prefix, (a, c), k, &[]);
            if !o.fired {
                // no k-th operation: this is the uninterrupted call
                emit(&o, out, st);
                break;
            }
            let mut j1 = 0;
            loop {
                let o = scenario::<P>(param, prefix, (a, c), k, &[j1]);
                if o.oob {
                    break;
                }
                emit(&o, out, st);
                if inner_n >= 2 {
                    let mut j2 = 0;
                    loop {
                        let o = scenario::<P>(param, prefix, (a, c), k, &[j1, j2]);
                        if o.oob {
                            break;
                        }
                        emit(&o, out, st);
                        j2 += 1;
                    }
                }
                j1 += 1;
            }
            k += 1;
            if k > 12 {
                break;
            }
        }
        if depth > 0 {
            prefix.push((a, c.to_string()));
            explore::<P>(param, prefix, depth - 1, inner_n, out, st);
            prefix.pop();
        }
    }
}

fn run_all<P: Prim>(depth: usize, inner_n: usize) {
    let stdout = std::io::stdout();
    let mut out = std::io::BufWriter::with_capacity(1 << 20, stdout.lock());
    let mut st = Stats { scenarios: 0, violations: 0 };
    for param in P::params() {
        explore::<P>(&param, &mut Vec::new(), depth, inner_n, &mut out, &mut st);
    }
    out.flush().unwrap();
    eprintln!("INJECT prim={} scenarios={} violations={}", P::name(), st.scenarios, st.violations);
}

fn replay<P: Prim>(param: &str, key: &str) {
    let key = key.strip_prefix("S:").unwrap_or(key);
    let parts: Vec<&str> = key.split(';').collect();
    let pc = |s: &str| -> (usize, String) {
        let (a, c) = s.split_once('.').expect("agent.call");
        (a.parse().unwrap(), c.to_string())
    };
    let prefix: Vec<(usize, String)> = parts[0].split(',').filter(|s| !s.is_empty()).map(pc).collect();
    let outer = pc(parts[1]);
    let k: usize = parts[2].parse().unwrap();
    let inner: Vec<usize> = parts.get(3).unwrap_or(&"").split(',').filter(|s| !s.is_empty()).map(|s| s.parse().unwrap()).collect();
    let o = scenario::<P>(param, &prefix, (outer.0, &outer.1), k, &inner);
    println!("{}", o.line);
    if let Some(v) = o.viol {
        eprintln!("VIOLATION {}", v);
        std::process::exit(1);
    }
}

// ------------------------------------------------------------------ Mutex

enum MG {
    B(MutexGuard<'static, usize>),
    A(MutexGuardArc<usize>),
}

enum MSlot {
    Idle,
    Busy,
    Fut(BoxFut<MG>),
    Held(MG),
}

/// `slots` (futures and guards borrowing the primitive) is declared, and therefore dropped, before
/// the owner of the primitive.
struct MutexP {
    slots: Vec<RefCell<MSlot>>,
    wk: Wakers,
    m: &'static Arc<Mutex<usize>>,
    _own: Owner<Arc<Mutex<usize>>>,
}

impl Prim for MutexP {
    fn name() -> &'static str {
        "mutex"
    }
    fn agents() -> usize {
        3
    }
    fn params() -> Vec<String> {
        vec!["fire=0".into(), "fire=1".into()]
    }
    fn new(param: &str) -> Self {
        let fire = param == "fire=1";
        set_starvation_oracle(Some(Box::new(move || fire)));
        let (own, m) = Owner::new(Arc::new(Mutex::new(0)));
        MutexP { m, _own: own, slots: (0..Self::agents()).map(|_| RefCell::new(MSlot::Idle)).collect(), wk: Wakers::new(Self::agents()) }
    }
    fn calls(&self, a: usize) -> Vec<&'static str> {
        match &*self.slots[a].borrow() {
            MSlot::Idle => vec!["tryLock", "tryLockArc", "lock", "lockArc"],
            MSlot::Busy => vec![],
            MSlot::Fut(_) => vec!["poll", "cancel"],
            MSlot::Held(_) => vec!["unlock"],
        }
    }
    fn exec(&self, a: usize, call: &str) -> &'static str {
        let slot = self.slots[a].replace(MSlot::Busy);
        let m = self.m;
        let (next, res) = match (slot, call) {
            (MSlot::Idle, "tryLock") => match m.try_lock() {
                Some(g) => (MSlot::Held(MG::B(g)), "some"),
                None => (MSlot::Idle, "none"),
            },
            (MSlot::Idle, "tryLockArc") => match m.try_lock_arc() {
                Some(g) => (MSlot::Held(MG::A(g)), "some"),
                None => (MSlot::Idle, "none"),
            },
            (MSlot::Idle, "lock") | (MSlot::Idle, "lockArc") => {
                let mut f: BoxFut<MG> = if call == "lock" {
                    Box::pin(async move { MG::B(m.lock().await) })
                } else {
                    Box::pin(async move { MG::A(m.lock_arc().await) })
                };
                match self.wk.poll(a, &mut f) {
                    Poll::Ready(g) => (MSlot::Held(g), "ready"),
                    Poll::Pending => (MSlot::Fut(f), "pending"),
                }
            }
            (MSlot::Fut(mut f), "poll") => match self.wk.poll(a, &mut f) {
                Poll::Ready(g) => (MSlot::Held(g), "ready"),
                Poll::Pending => (MSlot::Fut(f), "pending"),
            },
            (MSlot::Fut(f), "cancel") => {
                self.wk.forget(a);
                drop(f);
                (MSlot::Idle, "ok")
            }
            (MSlot::Held(g), "unlock") => {
                match g {
                    MG::B(g) => drop(g),
                    MG::A(g) => drop(g),
                }
                (MSlot::Idle, "ok")
            }
            _ => panic!("invalid call {}", call),
        };
        *self.slots[a].borrow_mut() = next;
        res
    }
    fn addrs(&self) -> Vec<usize> {
        self.m.__verif_snapshot().addrs
    }
    fn monitor(&self, _nested: bool) -> Option<String> {
        let held = self.slots.iter().filter(|s| matches!(&*s.borrow(), MSlot::Held(_))).count();
        if held > 1 {
            Some(format!("[C01,C14] {} mutex guards alive at once", held))
        } else {
            None
        }
    }
    fn final_probe(&self) -> Option<String> {
        // C14: nothing held, nothing pending: try_lock succeeds
        if self.slots.iter().all(|s| matches!(&*s.borrow(), MSlot::Idle)) && self.m.try_lock().is_none() {
            return Some("[C14,C10] try_lock fails on a mutex that nobody holds or waits for".into());
        }
        None
    }
}

// ------------------------------------------------------------------ Semaphore

enum SG {
    B(SemaphoreGuard<'static>),
    A(SemaphoreGuardArc),
}

enum SSlot {
    Idle,
    Busy,
    Fut(BoxFut<SG>),
    Held(SG),
}

struct SemP {
    slots: Vec<RefCell<SSlot>>,
    s: &'static Arc<Semaphore>,
    _own: Owner<Arc<Semaphore>>,
    init: usize,
    added: Cell<usize>,
    forgotten: Cell<usize>,
    wk: Wakers,
}

impl Prim for SemP {
    fn name() -> &'static str {
        "sem"
    }
    fn agents() -> usize {
        3
    }
    fn params() -> Vec<String> {
        vec!["0".into(), "1".into(), "2".into()]
    }
    fn new(param: &str) -> Self {
        let n: usize = param.parse().unwrap();
        let (own, s) = Owner::new(Arc::new(Semaphore::new(n)));
        SemP {
            s,
            _own: own,
            slots: (0..Self::agents()).map(|_| RefCell::new(SSlot::Idle)).collect(),
            init: n,
            added: Cell::new(0),
            forgotten: Cell::new(0),
            wk: Wakers::new(Self::agents()),
        }
    }
    fn calls(&self, a: usize) -> Vec<&'static str> {
        match &*self.slots[a].borrow() {
            SSlot::Idle => vec!["tryAcq", "tryAcqArc", "acquire", "acquireArc", "add1"],
            SSlot::Busy => vec![],
            SSlot::Fut(_) => vec!["poll", "cancel"],
            SSlot::Held(_) => vec!["release", "forget"],
        }
    }
    fn exec(&self, a: usize, call: &str) -> &'static str {
        let slot = self.slots[a].replace(SSlot::Busy);
        let s = self.s;
        let (next, res) = match (slot, call) {
            (SSlot::Idle, "tryAcq") => match s.try_acquire() {
                Some(g) => (SSlot::Held(SG::B(g)), "some"),
                None => (SSlot::Idle, "none"),
            },
            (SSlot::Idle, "tryAcqArc") => match s.try_acquire_arc() {
                Some(g) => (SSlot::Held(SG::A(g)), "some"),
                None => (SSlot::Idle, "none"),
            },
            (SSlot::Idle, "acquire") | (SSlot::Idle, "acquireArc") => {
                let mut f: BoxFut<SG> = if call == "acquire" {
                    Box::pin(async move { SG::B(s.acquire().await) })
                } else {
                    Box::pin(async move { SG::A(s.acquire_arc().await) })
                };
                match self.wk.poll(a, &mut f) {
                    Poll::Ready(g) => (SSlot::Held(g), "ready"),
                    Poll::Pending => (SSlot::Fut(f), "pending"),
                }
            }
            (SSlot::Idle, "add1") => {
                // counted before the call: the permit exists from the fetch_add on
                self.added.set(self.added.get() + 1);
                s.add_permits(1);
                (SSlot::Idle, "ok")
            }
            (SSlot::Fut(mut f), "poll") => match self.wk.poll(a, &mut f) {
                Poll::Ready(g) => (SSlot::Held(g), "ready"),
                Poll::Pending => (SSlot::Fut(f), "pending"),
            },
            (SSlot::Fut(f), "cancel") => {
                self.wk.forget(a);
                drop(f);
                (SSlot::Idle, "ok")
            }
            (SSlot::Held(g), "release") => {
                match g {
                    SG::B(g) => drop(g),
                    SG::A(g) => drop(g),
                }
                (SSlot::Idle, "ok")
            }
            (SSlot::Held(g), "forget") => {
                self.forgotten.set(self.forgotten.get() + 1);
                match g {
                    SG::B(g) => g.forget(),
                    SG::A(g) => g.forget(),
                }
                (SSlot::Idle, "ok")
            }
            _ => panic!("invalid call {}", call),
        };
        *self.slots[a].borrow_mut() = next;
        res
    }
    fn addrs(&self) -> Vec<usize> {
        self.s.__verif_snapshot().addrs
    }
    fn monitor(&self, nested: bool) -> Option<String> {
        let held = self.slots.iter().filter(|s| matches!(&*s.borrow(), SSlot::Held(_))).count();
        let total = self.init + self.added.get();
        if held + self.forgotten.get() > total {
            return Some(format!("[C03,C14] {} permits out (held or forgotten) but only {} exist", held + self.forgotten.get(), total));
        }
        if !nested {
            let count = self.s.__verif_snapshot().words[0];
            if count.wrapping_add(held).wrapping_add(self.forgotten.get()) != total {
                return Some(format!("[C03,C14,C10] count {} + held {} + forgotten {} != initial + added {}", count, held, self.forgotten.get(), total));
            }
        }
        None
    }
}

// ------------------------------------------------------------------ RwLock

enum RG {
    R(RwLockReadGuard<'static, usize>),
    RA(RwLockReadGuardArc<usize>),
    U(RwLockUpgradableReadGuard<'static, usize>),
    UA(RwLockUpgradableReadGuardArc<usize>),
    W(RwLockWriteGuard<'static, usize>),
    WA(RwLockWriteGuardArc<usize>),
}

impl RG {
    fn kind(&self) -> char {
        match self {
            RG::R(_) | RG::RA(_) => 'r',
            RG::U(_) | RG::UA(_) => 'u',
            RG::W(_) | RG::WA(_) => 'w',
        }
    }
}

enum RSlot {
    Idle,
    Busy,
    Held(RG),
    FutR(BoxFut<RG>),
    FutUp(BoxFut<RG>),
    FutW(BoxFut<RG>),
    FutU(BoxFut<RG>),
}

struct RwP {
    slots: Vec<RefCell<RSlot>>,
    wk: Wakers,
    l: &'static Arc<RwLock<usize>>,
    _own: Owner<Arc<RwLock<usize>>>,
}

impl Prim for RwP {
    fn name() -> &'static str {
        "rwlock"
    }
    fn agents() -> usize {
        3
    }
    fn params() -> Vec<String> {
        vec!["fire=0".into(), "fire=1".into()]
    }
    fn new(param: &str) -> Self {
        let fire = param == "fire=1";
        set_starvation_oracle(Some(Box::new(move || fire)));
        let (own, l) = Owner::new(Arc::new(RwLock::new(0)));
        RwP { l, _own: own, slots: (0..Self::agents()).map(|_| RefCell::new(RSlot::Idle)).collect(), wk: Wakers::new(Self::agents()) }
    }
    fn calls(&self, a: usize) -> Vec<&'static str> {
        match &*self.slots[a].borrow() {
            RSlot::Idle => vec![
                "tryRead", "tryReadArc", "tryWrite", "tryWriteArc", "tryUread", "tryUreadArc", "read", "readArc", "write", "writeArc",
                "uread", "ureadArc",
            ],
            RSlot::Busy => vec![],
            RSlot::Held(g) => match g.kind() {
                'r' => vec!["dropR"],
                'u' => vec!["dropU", "tryUpgrade", "dgU", "upgrade"],
                _ => vec!["dropW", "dgW", "dgWU"],
            },
            RSlot::FutR(_) => vec!["pollR", "cancelR"],
            RSlot::FutUp(_) => vec!["pollUp", "cancelUp"],
            RSlot::FutW(_) => vec!["pollW", "cancelW"],
            RSlot::FutU(_) => vec!["pollU", "cancelU"],
        }
    }
    fn exec(&self, a: usize, call: &str) -> &'static str {
        let slot = self.slots[a].replace(RSlot::Busy);
        let l = self.l;
        let opt = |g: Option<RG>| match g {
            Some(g) => (RSlot::Held(g), "some"),
            None => (RSlot::Idle, "none"),
        };
        let (next, res) = match (slot, call) {
            (RSlot::Idle, "tryRead") => opt(l.try_read().map(RG::R)),
            (RSlot::Idle, "tryReadArc") => opt(l.try_read_arc().map(RG::RA)),
            (RSlot::Idle, "tryWrite") => opt(l.try_write().map(RG::W)),
            (RSlot::Idle, "tryWriteArc") => opt(l.try_write_arc().map(RG::WA)),
            (RSlot::Idle, "tryUread") => opt(l.try_upgradable_read().map(RG::U)),
            (RSlot::Idle, "tryUreadArc") => opt(l.try_upgradable_read_arc().map(RG::UA)),
            (RSlot::Idle, "read") | (RSlot::Idle, "readArc") => {
                // the future is created here: `RawRead::new` loads the word
                let mut f: BoxFut<RG> = if call == "read" {
                    let f = l.read();
                    Box::pin(async move { RG::R(f.await) })
                } else {
                    let f = l.read_arc();
                    Box::pin(async move { RG::RA(f.await) })
                };
                match self.wk.poll(a, &mut f) {
                    Poll::Ready(g) => (RSlot::Held(g), "ready"),
                    Poll::Pending => (RSlot::FutR(f), "pending"),
                }
            }
            (RSlot::FutR(mut f), "pollR") => match self.wk.poll(a, &mut f) {
                Poll::Ready(g) => (RSlot::Held(g), "ready"),
                Poll::Pending => (RSlot::FutR(f), "pending"),
            },
            (RSlot::FutR(f), "cancelR") | (RSlot::FutW(f), "cancelW") | (RSlot::FutU(f), "cancelU") => {
                self.wk.forget(a);
                drop(f);
                (RSlot::Idle, "ok")
            }
            (RSlot::Idle, "write") | (RSlot::Idle, "writeArc") => {
                let mut f: BoxFut<RG> = if call == "write" {
                    let f = l.write();
                    Box::pin(async move { RG::W(f.await) })
                } else {
                    let f = l.write_arc();
                    Box::pin(async move { RG::WA(f.await) })
                };
                match self.wk.poll(a, &mut f) {
                    Poll::Ready(g) => (RSlot::Held(g), "ready"),
                    Poll::Pending => (RSlot::FutW(f), "pending"),
                }
            }
            (RSlot::FutW(mut f), "pollW") => match self.wk.poll(a, &mut f) {
                Poll::Ready(g) => (RSlot::Held(g), "ready"),
                Poll::Pending => (RSlot::FutW(f), "pending"),
            },
            (RSlot::Idle, "uread") | (RSlot::Idle, "ureadArc") => {
                let mut f: BoxFut<RG> = if call == "uread" {
                    let f = l.upgradable_read();
                    Box::pin(async move { RG::U(f.await) })
                } else {
                    let f = l.upgradable_read_arc();
                    Box::pin(async move { RG::UA(f.await) })
                };
                match self.wk.poll(a, &mut f) {
                    Poll::Ready(g) => (RSlot::Held(g), "ready"),
                    Poll::Pending => (RSlot::FutU(f), "pending"),
                }
            }
            (RSlot::FutU(mut f), "pollU") => match self.wk.poll(a, &mut f) {
                Poll::Ready(g) => (RSlot::Held(g), "ready"),
                Poll::Pending => (RSlot::FutU(f), "pending"),
            },
            (RSlot::Held(g), "dropR") | (RSlot::Held(g), "dropU") | (RSlot::Held(g), "dropW") => {
                drop(g);
                (RSlot::Idle, "ok")
            }
            (RSlot::Held(RG::U(g)), "tryUpgrade") => match RwLockUpgradableReadGuard::try_upgrade(g) {
                Ok(w) => (RSlot::Held(RG::W(w)), "ok"),
                Err(g) => (RSlot::Held(RG::U(g)), "err"),
            },
            (RSlot::Held(RG::UA(g)), "tryUpgrade") => match RwLockUpgradableReadGuardArc::try_upgrade(g) {
                Ok(w) => (RSlot::Held(RG::WA(w)), "ok"),
                Err(g) => (RSlot::Held(RG::UA(g)), "err"),
            },
            (RSlot::Held(RG::U(g)), "dgU") => (RSlot::Held(RG::R(RwLockUpgradableReadGuard::downgrade(g))), "ok"),
            (RSlot::Held(RG::UA(g)), "dgU") => (RSlot::Held(RG::RA(RwLockUpgradableReadGuardArc::downgrade(g))), "ok"),
            (RSlot::Held(RG::W(g)), "dgW") => (RSlot::Held(RG::R(RwLockWriteGuard::downgrade(g))), "ok"),
            (RSlot::Held(RG::WA(g)), "dgW") => (RSlot::Held(RG::RA(RwLockWriteGuardArc::downgrade(g))), "ok"),
            (RSlot::Held(RG::W(g)), "dgWU") => (RSlot::Held(RG::U(RwLockWriteGuard::downgrade_to_upgradable(g))), "ok"),
            (RSlot::Held(RG::WA(g)), "dgWU") => (RSlot::Held(RG::UA(RwLockWriteGuardArc::downgrade_to_upgradable(g))), "ok"),
            (RSlot::Held(g), "upgrade") => {
                let mut f: BoxFut<RG> = match g {
                    RG::U(g) => {
                        let f = RwLockUpgradableReadGuard::upgrade(g);
                        Box::pin(async move { RG::W(f.await) })
                    }
                    RG::UA(g) => {
                        let f = RwLockUpgradableReadGuardArc::upgrade(g);
                        Box::pin(async move { RG::WA(f.await) })
                    }
                    _ => panic!("upgrade of a guard that is not upgradable"),
                };
                match self.wk.poll(a, &mut f) {
                    Poll::Ready(g) => (RSlot::Held(g), "ready"),
                    Poll::Pending => (RSlot::FutUp(f), "pending"),
                }
            }
            (RSlot::FutUp(mut f), "pollUp") => match self.wk.poll(a, &mut f) {
                Poll::Ready(g) => (RSlot::Held(g), "ready"),
                Poll::Pending => (RSlot::FutUp(f), "pending"),
            },
            (RSlot::FutUp(f), "cancelUp") => {
                self.wk.forget(a);
                drop(f);
                (RSlot::Idle, "ok")
            }
            _ => panic!("invalid call {}", call),
        };
        *self.slots[a].borrow_mut() = next;
        res
    }
    fn addrs(&self) -> Vec<usize> {
        self.l.__verif_snapshot().addrs
    }
    fn monitor(&self, _nested: bool) -> Option<String> {
        let (mut r, mut u, mut w) = (0, 0, 0);
        for s in &self.slots {
            if let RSlot::Held(g) = &*s.borrow() {
                match g.kind() {
                    'r' => r += 1,
                    'u' => u += 1,
                    _ => w += 1,
                }
            }
        }
        if w > 1 || (w == 1 && r + u > 0) {
            Some(format!("[C02,C11,C14] write guard alive together with {} write, {} upgradable, {} read guards", w - 1, u, r))
        } else if u > 1 {
            Some(format!("[C02,C11,C14] {} upgradable guards alive at once", u))
        } else {
            None
        }
    }
    fn final_probe(&self) -> Option<String> {
        let all_idle = self.slots.iter().all(|s| matches!(&*s.borrow(), RSlot::Idle));
        if all_idle {
            // C14: nothing held, nothing pending: try_write succeeds
            if self.l.try_write().is_none() {
                return Some("[C14,C10] try_write fails on a lock that nobody holds or waits for".into());
            }
            return None;
        }
        // C12: a polled writer or upgrade is pending, no write or upgradable guard is alive, every
        // woken task has been polled again: readers are refused
        let pending_writer = self.slots.iter().any(|s| matches!(&*s.borrow(), RSlot::FutW(_) | RSlot::FutUp(_)));
        let wu_guard = self.slots.iter().any(|s| matches!(&*s.borrow(), RSlot::Held(g) if g.kind() != 'r'));
        if pending_writer && !wu_guard && !self.wk.any_woken() && self.l.try_read().is_some() {
            return Some("[C12] try_read succeeds while a polled writer is pending at quiescence".into());
        }
        None
    }
}

// ------------------------------------------------------------------ OnceCell

enum OSlot {
    Idle,
    Busy,
    Fut(BoxFut<Result<usize, ()>>),
}

struct OnceP {
    slots: Vec<RefCell<OSlot>>,
    c: &'static OnceCell<usize>,
    _own: Owner<OnceCell<usize>>,
    /// initialisers that ran to `Ok`
    inits: Rc<Cell<usize>>,
    /// values handed out so far
    seen: RefCell<Vec<usize>>,
    wk: Wakers,
}

impl OnceP {
    fn saw(&self, v: usize) {
        self.seen.borrow_mut().push(v);
    }
}

impl Prim for OnceP {
    fn name() -> &'static str {
        "once"
    }
    fn agents() -> usize {
        3
    }
    fn params() -> Vec<String> {
        vec!["-".into()]
    }
    fn new(_param: &str) -> Self {
        let (own, c) = Owner::new(OnceCell::new());
        OnceP {
            c,
            _own: own,
            slots: (0..Self::agents()).map(|_| RefCell::new(OSlot::Idle)).collect(),
            inits: Rc::new(Cell::new(0)),
            seen: RefCell::new(Vec::new()),
            wk: Wakers::new(Self::agents()),
        }
    }
    fn calls(&self, a: usize) -> Vec<&'static str> {
        match &*self.slots[a].borrow() {
            OSlot::Idle => vec!["get", "init", "tryInitErr", "set"],
            OSlot::Busy => vec![],
            OSlot::Fut(_) => vec!["poll", "cancel"],
        }
    }
    fn exec(&self, a: usize, call: &str) -> &'static str {
        let slot = self.slots[a].replace(OSlot::Busy);
        let c = self.c;
        let fin = |s: &Self, mut f: BoxFut<Result<usize, ()>>| match s.wk.poll(a, &mut f) {
            Poll::Ready(Ok(v)) => {
                s.saw(v);
                (OSlot::Idle, "ready")
            }
            Poll::Ready(Err(())) => (OSlot::Idle, "err"),
            Poll::Pending => (OSlot::Fut(f), "pending"),
        };
        let (next, res) = match (slot, call) {
            (OSlot::Idle, "get") => match c.get() {
                Some(v) => {
                    self.saw(*v);
                    (OSlot::Idle, "some")
                }
                None => (OSlot::Idle, "none"),
            },
            (OSlot::Idle, "init") => {
                let inits = self.inits.clone();
                let v = 10 + a;
                fin(
                    self,
                    Box::pin(async move {
                        Ok(*c
                            .get_or_init(|| async move {
                                inits.set(inits.get() + 1);
                                v
                            })
                            .await)
                    }),
                )
            }
            (OSlot::Idle, "tryInitErr") => fin(
                self,
                Box::pin(async move { c.get_or_try_init(|| async move { Err::<usize, ()>(()) }).await.map(|v| *v) }),
            ),
            (OSlot::Idle, "set") => {
                let inits = self.inits.clone();
                let v = 20 + a;
                fin(
                    self,
                    Box::pin(async move {
                        match c.set(v).await {
                            Ok(r) => {
                                inits.set(inits.get() + 1);
                                Ok(*r)
                            }
                            Err(_) => Err(()),
                        }
                    }),
                )
            }
            (OSlot::Fut(f), "poll") => fin(self, f),
            (OSlot::Fut(f), "cancel") => {
                self.wk.forget(a);
                drop(f);
                (OSlot::Idle, "ok")
            }
            _ => panic!("invalid call {}", call),
        };
        *self.slots[a].borrow_mut() = next;
        res
    }
    fn addrs(&self) -> Vec<usize> {
        self.c.__verif_snapshot().addrs
    }
    fn monitor(&self, _nested: bool) -> Option<String> {
        if self.inits.get() > 1 {
            return Some(format!("[C04] {} initialisers ran to completion", self.inits.get()));
        }
        let seen = self.seen.borrow();
        if let Some(&first) = seen.first() {
            if seen.iter().any(|&v| v != first) {
                return Some(format!("[C04] different values were handed out: {:?}", *seen));
            }
        }
        None
    }
}

fn main() {
    let args: Vec<String> = std::env::args().collect();
    match args.get(1).map(|s| s.as_str()) {
        Some("replay") => {
            let (prim, param, key) = (&args[2], &args[3], &args[4]);
            match prim.as_str() {
                "mutex" => replay::<MutexP>(param, key),
                "sem" => replay::<SemP>(param, key),
                "rwlock" => replay::<RwP>(param, key),
                "once" => replay::<OnceP>(param, key),
                _ => panic!("unknown primitive"),
            }
        }
        Some(prim) => {
            let depth: usize = args[2].parse().expect("depth");
            let inner: usize = args[3].parse().expect("inner");
            match prim {
                "mutex" => run_all::<MutexP>(depth, inner),
                "sem" => run_all::<SemP>(depth, inner),
                "rwlock" => run_all::<RwP>(depth, inner),
                "once" => run_all::<OnceP>(depth, inner),
                _ => panic!("unknown primitive"),
            }
        }
        None => panic!("usage: inject <prim> <depth> <inner> | inject replay <prim> <param> <key>"),
    }
}
