//! Preemption injection: runs the real crate with hook H4 so that, immediately before the k-th
//! atomic operation of one call (the *outer* call), complete calls of other agents run on the same
//! thread — the schedule "A is preempted after k atomic operations, B runs, A resumes", exactly
//! and deterministically.  Every atomic operation on a state word is recorded (hook H3) and
//! attributed to the agent whose call performed it.  One line per scenario:
//!
//! `<prim> <agents> <param> | S:<replay key> B<i>:<call> A<i>:<w>:<op>:<a>:<b>:<kind>:<ret> ... R<i>:<res> [V:<violation>]`
//!
//! The Lean acceptor (`alock-accept`) replays each line in the atomic-granularity model.
//!
//! usage: inject <prim> <depth> <inner> [<post>]   enumerate: prefixes up to <depth> calls, <inner> = 1 | 2
//!                                           injected calls, <post> = 0 | 1 calls after the preempted one
//!        inject random <prim> <seed> <count> <maxdepth>   seeded random scenarios (deeper, more agents: `mutex5`)
//!        inject replay <prim> <param> <key> one scenario (key as printed after `S:`)

use async_lock::__verif::{record_atomics, set_preempt_hook, set_starvation_oracle, take_atomic_log};
use async_lock::{
    Barrier, Mutex, MutexGuard, MutexGuardArc, OnceCell, RwLock, RwLockReadGuard, RwLockReadGuardArc,
    RwLockUpgradableReadGuard, RwLockUpgradableReadGuardArc, RwLockWriteGuard, RwLockWriteGuardArc,
    Semaphore, SemaphoreGuard, SemaphoreGuardArc,
};
use std::cell::{Cell, RefCell};
use std::future::Future;
use std::io::Write;
use std::pin::Pin;
use std::rc::Rc;
use std::sync::Arc;
use std::sync::atomic::{AtomicBool, Ordering};
use std::task::{Context, Poll, Wake, Waker};

/// one flag per agent: its waker was called and it has not been polled since
struct Flag(AtomicBool);

impl Wake for Flag {
    fn wake(self: Arc<Self>) {
        self.0.store(true, Ordering::SeqCst);
    }
}

struct Wakers(Vec<Arc<Flag>>);

impl Wakers {
    fn new(n: usize) -> Self {
        Wakers((0..n).map(|_| Arc::new(Flag(AtomicBool::new(false)))).collect())
    }
    fn any_woken(&self) -> bool {
        self.0.iter().any(|f| f.0.load(Ordering::SeqCst))
    }
    fn poll<T>(&self, a: usize, f: &mut BoxFut<T>) -> Poll<T> {
        self.0[a].0.store(false, Ordering::SeqCst);
        let w = Waker::from(self.0[a].clone());
        let mut cx = Context::from_waker(&w);
        f.poll_dyn(&mut cx)
    }
    fn forget(&self, a: usize) {
        self.0[a].0.store(false, Ordering::SeqCst);
    }
    fn is_woken(&self, a: usize) -> bool {
        self.0[a].0.load(Ordering::SeqCst)
    }
}

/// A boxed future whose result is mapped; unlike an `async` wrapper block it keeps the crate's own
/// future alive after completion (needed for the "completed future kept alive" scenarios).
trait DynFut<T> {
    fn poll_dyn(&mut self, cx: &mut Context<'_>) -> Poll<T>;
}

struct Mapped<F, M>(Pin<Box<F>>, M);

impl<T, F: Future, M: FnMut(F::Output) -> T> DynFut<T> for Mapped<F, M> {
    fn poll_dyn(&mut self, cx: &mut Context<'_>) -> Poll<T> {
        self.0.as_mut().poll(cx).map(&mut self.1)
    }
}

type BoxFut<T> = Box<dyn DynFut<T>>;

fn mapped<T: 'static, F: Future + 'static, M: FnMut(F::Output) -> T + 'static>(f: F, m: M) -> BoxFut<T> {
    Box::new(Mapped(Box::pin(f), m))
}

/// Owns a heap value and hands out a `'static` reference to it. The reference must not be used
/// after the owner is dropped: every `Prim` keeps the owner in its last field, so everything that
/// borrows the value (slots with futures and guards) is dropped first.
struct Owner<T>(*mut T);

impl<T> Owner<T> {
    fn new(v: T) -> (Self, &'static T) {
        let p = Box::into_raw(Box::new(v));
        (Owner(p), unsafe { &*p })
    }
}

impl<T> Drop for Owner<T> {
    fn drop(&mut self) {
        unsafe { drop(Box::from_raw(self.0)) }
    }
}

/// A primitive with a fixed set of agents, each of which performs one call at a time.
trait Prim: 'static {
    fn name() -> &'static str;
    fn agents() -> usize;
    fn params() -> Vec<String>;
    fn new(param: &str) -> Self;
    /// what is printed after the number of agents in the header
    fn header_param(param: &str) -> String {
        param.to_string()
    }
    /// the calls agent `a` may make now
    fn calls(&self, a: usize) -> Vec<&'static str>;
    fn exec(&self, a: usize, call: &str) -> &'static str;
    fn addrs(&self) -> Vec<usize>;
    /// a violation of the property visible in what the agents hold (`nested`: evaluated while an
    /// outer call is in flight)
    fn monitor(&self, nested: bool) -> Option<String>;
    /// probes made once, after the last call of a scenario (they may disturb the primitive)
    fn final_probe(&self) -> Option<String> {
        None
    }
    /// pending futures whose waker was called and that have not been polled since: (agent, poll call)
    fn woken(&self) -> Vec<(usize, &'static str)>;
    /// guards alive: (agent, releasing call)
    fn releasable(&self) -> Vec<(usize, &'static str)>;
    /// futures still pending
    fn pending(&self) -> usize;
    /// with every guard released and every woken future polled again, must every pending future
    /// have completed?
    fn must_finish(&self) -> bool {
        true
    }
    /// after the drain: is somebody asleep who should not be?
    fn lost(&self) -> bool {
        self.pending() > 0 && self.must_finish()
    }
    /// tags of the no-lost-wake-up property of this primitive
    fn wake_tags() -> &'static str;
    /// per-thread set-up of a worker thread that will execute calls (the starvation oracle is
    /// thread-local)
    fn install_thread(_param: &str) {}
    /// probe after the drain, when nothing is held or pending
    fn idle_probe(&self) -> Option<String> {
        None
    }
}

struct Run<P: Prim> {
    p: P,
    addrs: Vec<usize>,
    ev: RefCell<Vec<String>>,
    viol: RefCell<Option<String>>,
    depth: Cell<usize>,
}

impl<P: Prim> Run<P> {
    fn drain(&self, agent: usize) {
        for op in take_atomic_log() {
            let w = self.addrs.iter().position(|&x| x == op.addr).map(|x| x as i64).unwrap_or(9);
            let (kind, ret) = match (op.op, op.ret) {
                (_, None) => ("none", 0),
                ("cas", Some(v)) | ("casw", Some(v)) => (if op.ok { "ok" } else { "err" }, v),
                (_, Some(v)) => ("val", v),
            };
            // masks are printed as signed numbers (`!WRITER_BIT` = -2)
            let a = if op.op == "fand" { (op.args[0] as i64).to_string() } else { op.args[0].to_string() };
            self.ev.borrow_mut().push(format!("A{}:{}:{}:{}:{}:{}:{}", agent, w, op.op, a, op.args[1], kind, ret));
        }
    }

    fn call(&self, a: usize, c: &str) {
        self.ev.borrow_mut().push(format!("B{}:{}", a, c));
        self.depth.set(self.depth.get() + 1);
        let r = self.p.exec(a, c);
        self.depth.set(self.depth.get() - 1);
        self.drain(a);
        self.ev.borrow_mut().push(format!("R{}:{}", a, r));
        if self.viol.borrow().is_none() {
            if let Some(v) = self.p.monitor(self.depth.get() > 0) {
                let v = v.replace(' ', "_");
                self.ev.borrow_mut().push(format!("V:{}", v));
                *self.viol.borrow_mut() = Some(v);
            }
        }
    }
}

struct Outcome {
    line: String,
    fired: bool,
    /// an inner choice index was out of range
    oob: bool,
    viol: Option<String>,
}

/// prefix calls, then `outer` with the inner calls `inner` (indices into the list of calls that
/// are possible at that moment) injected before its k-th atomic operation
fn scenario<P: Prim>(param: &str, prefix: &[(usize, String)], outer: (usize, &str), k: usize, inner: &[usize], post: Option<usize>) -> Outcome {
    let inner: Vec<(usize, usize)> = inner.iter().map(|&j| (k, j)).collect();
    scenario_w::<P>(param, prefix, outer, k, &inner, &post.into_iter().collect::<Vec<_>>(), false)
}

/// `wrap`: indices are taken modulo the number of possible calls (random mode); several post calls
/// `inner`: (preemption point, call index) pairs in non-decreasing order of the point: the calls
/// injected before the outer call's k-th atomic operation, for several k
fn scenario_w<P: Prim>(param: &str, prefix: &[(usize, String)], outer: (usize, &str), k: usize, inner: &[(usize, usize)], post: &[usize], wrap: bool) -> Outcome {
    record_atomics(true);
    let _ = take_atomic_log();
    let p = P::new(param);
    let addrs = p.addrs();
    let run = Rc::new(Run { p, addrs, ev: RefCell::new(Vec::new()), viol: RefCell::new(None), depth: Cell::new(0) });
    let _ = take_atomic_log();
    for (a, c) in prefix {
        run.call(*a, c);
    }
    let fired = Rc::new(Cell::new(false));
    let oob = Rc::new(Cell::new(false));
    {
        let (run2, fired2, oob2) = (run.clone(), fired.clone(), oob.clone());
        let inner: Vec<(usize, usize)> = inner.to_vec();
        let outer_agent = outer.0;
        let mut count = 0usize;
        set_preempt_hook(Some(Box::new(move || {
            if count == k {
                fired2.set(true);
            }
            if count == k || inner.iter().any(|x| x.0 == count) {
                run2.drain(outer_agent);
                for &(_, j) in inner.iter().filter(|x| x.0 == count) {
                    let mut all: Vec<(usize, &'static str)> = Vec::new();
                    for b in 0..P::agents() {
                        if b != outer_agent {
                            for c in run2.p.calls(b) {
                                all.push((b, c));
                            }
                        }
                    }
                    if all.is_empty() || (!wrap && j >= all.len()) {
                        oob2.set(true);
                        break;
                    }
                    let j = j % all.len();
                    run2.call(all[j].0, all[j].1);
                }
            }
            count += 1;
        })));
    }
    run.call(outer.0, outer.1);
    set_preempt_hook(None);
    // more complete calls after the preempted one
    for &j in post {
        let mut all: Vec<(usize, &'static str)> = Vec::new();
        for b in 0..P::agents() {
            for c in run.p.calls(b) {
                all.push((b, c));
            }
        }
        if all.is_empty() || (!wrap && j >= all.len()) {
            oob.set(true);
        } else if run.viol.borrow().is_none() {
            let j = j % all.len();
            run.call(all[j].0, all[j].1);
        }
    }
    let flag = |v: Option<String>| {
        let _ = take_atomic_log();
        if let Some(v) = v {
            if run.viol.borrow().is_none() {
                let v = v.replace(' ', "_");
                run.ev.borrow_mut().push(format!("V:{}", v));
                *run.viol.borrow_mut() = Some(v);
            }
        }
    };
    // a probe's finding is recorded but does not end the scenario: the drain may find more
    let mut probe_viol: Option<String> = None;
    if run.viol.borrow().is_none() {
        let v = run.p.final_probe();
        // the probe's own operations are not part of the trace
        let _ = take_atomic_log();
        if let Some(v) = v {
            let v = v.replace(' ', "_");
            run.ev.borrow_mut().push(format!("V:{}", v));
            probe_viol = Some(v);
        }
    }
    // drain: poll whatever was woken, release one guard, repeat. Every wake-up must lead somewhere
    // (no lost wake-up), and the polls must come to an end (no busy waiting).
    let mut polls = 0usize;
    while run.viol.borrow().is_none() {
        let w = run.p.woken();
        if !w.is_empty() {
            for (a, c) in w {
                run.call(a, c);
                polls += 1;
            }
            if polls > 60 {
                flag(Some(format!("[C17] after {} re-polls the futures still wake each other", polls)));
            }
            continue;
        }
        match run.p.releasable().first() {
            Some(&(a, c)) => run.call(a, c),
            None => break,
        }
    }
    if run.viol.borrow().is_none() {
        let n = run.p.pending();
        if run.p.lost() {
            flag(Some(format!("{} lost wake-up: nothing is held, nobody is woken, {} future(s) still pending", P::wake_tags(), n)));
        } else if n == 0 {
            flag(run.p.idle_probe());
        }
    }
    set_starvation_oracle(None);
    let key = format!(
        "S:{};{}.{};{};{};{}",
        prefix.iter().map(|(a, c)| format!("{}.{}", a, c)).collect::<Vec<_>>().join(","),
        outer.0,
        outer.1,
        k,
        inner.iter().map(|(kk, j)| if *kk == k { j.to_string() } else { format!("{}:{}", kk, j) }).collect::<Vec<_>>().join(","),
        post.iter().map(|j| j.to_string()).collect::<Vec<_>>().join(",") + if wrap { "w" } else { "" }
    );
    let line = format!("{} {} {} | {} {}", P::name(), P::agents(), P::header_param(param), key, run.ev.borrow().join(" "));
    let viol = run.viol.borrow().clone().or(probe_viol);
    if viol.is_some() {
        // whatever is wrong (e.g. a reference count), do not let destructors act on it
        std::mem::forget(run);
    }
    Outcome { line, fired: fired.get(), oob: oob.get(), viol }
}

struct Stats {
    scenarios: usize,
    violations: usize,
}

fn emit(o: &Outcome, out: &mut dyn Write, st: &mut Stats) {
    st.scenarios += 1;
    if o.viol.is_some() {
        st.violations += 1;
    }
    writeln!(out, "{}", o.line).unwrap();
}

/// the calls possible after `prefix`
fn calls_after<P: Prim>(param: &str, prefix: &[(usize, String)]) -> Vec<(usize, &'static str)> {
    record_atomics(true);
    let p = P::new(param);
    let addrs = p.addrs();
    let run = Run { p, addrs, ev: RefCell::new(Vec::new()), viol: RefCell::new(None), depth: Cell::new(0) };
    for (a, c) in prefix {
        run.call(*a, c);
    }
    set_starvation_oracle(None);
    let used = prefix.iter().map(|(a, _)| *a + 1).max().unwrap_or(0);
    let mut all = Vec::new();
    // agents are interchangeable: a fresh agent is always the one with the smallest unused index
    for a in 0..P::agents().min(used + 1) {
        for c in run.p.calls(a) {
            all.push((a, c));
        }
    }
    all
}

/// the scenario without and (if `post_n > 0`) with every possible call after the preempted one;
/// false if an inner index was out of range
fn with_posts<P: Prim>(param: &str, prefix: &[(usize, String)], outer: (usize, &str), k: usize, inner: &[usize], post_n: usize, out: &mut dyn Write, st: &mut Stats) -> bool {
    let o = scenario::<P>(param, prefix, outer, k, inner, None);
    if o.oob {
        return false;
    }
    emit(&o, out, st);
    if post_n > 0 && o.viol.is_none() {
        let mut j = 0;
        loop {
            let o = scenario::<P>(param, prefix, outer, k, inner, Some(j));
            if o.oob {
                break;
            }
            emit(&o, out, st);
            j += 1;
        }
    }
    true
}

fn explore<P: Prim>(param: &str, prefix: &mut Vec<(usize, String)>, depth: usize, inner_n: usize, post_n: usize, out: &mut dyn Write, st: &mut Stats) {
    let calls = calls_after::<P>(param, prefix);
    for (a, c) in calls {
        let mut k = 0;
        loop {
            let o = scenario::<P>(param, prefix, (a, c), k, &[], None);
            if !o.fired {
                // no k-th operation: this is the uninterrupted call
                emit(&o, out, st);
                break;
            }
            let mut j1 = 0;
            while with_posts::<P>(param, prefix, (a, c), k, &[j1], post_n, out, st) {
                if inner_n >= 2 {
                    let mut j2 = 0;
                    while with_posts::<P>(param, prefix, (a, c), k, &[j1, j2], post_n, out, st) {
                        j2 += 1;
                    }
                    // two preemptions: the second call before a later operation of the outer call
                    for k2 in k + 1..k + 4 {
                        let mut j2 = 0;
                        loop {
                            let o = scenario_w::<P>(param, prefix, (a, c), k2, &[(k, j1), (k2, j2)], &[], false);
                            if o.oob || !o.fired {
                                break;
                            }
                            emit(&o, out, st);
                            j2 += 1;
                        }
                    }
                }
                j1 += 1;
            }
            k += 1;
            if k > 12 {
                break;
            }
        }
        if depth > 0 {
            prefix.push((a, c.to_string()));
            explore::<P>(param, prefix, depth - 1, inner_n, post_n, out, st);
            prefix.pop();
        }
    }
}

fn run_all<P: Prim>(depth: usize, inner_n: usize, post_n: usize) {
    let stdout = std::io::stdout();
    let mut out = std::io::BufWriter::with_capacity(1 << 20, stdout.lock());
    let mut st = Stats { scenarios: 0, violations: 0 };
    for param in P::params() {
        explore::<P>(&param, &mut Vec::new(), depth, inner_n, post_n, &mut out, &mut st);
    }
    out.flush().unwrap();
    eprintln!("INJECT prim={} scenarios={} violations={}", P::name(), st.scenarios, st.violations);
}

struct Rng(u64);

impl Rng {
    fn next(&mut self) -> u64 {
        // xorshift64*
        self.0 ^= self.0 >> 12;
        self.0 ^= self.0 << 25;
        self.0 ^= self.0 >> 27;
        self.0.wrapping_mul(0x2545F4914F6CDD1D)
    }
    fn below(&mut self, n: usize) -> usize {
        (self.next() >> 33) as usize % n.max(1)
    }
}

/// random scenarios: a random walk of up to `maxdepth` complete calls, a random call preempted at a
/// random point by 1..=3 random calls, 0..=2 random calls afterwards; every choice from one PRNG
fn run_random<P: Prim>(seed: u64, count: usize, maxdepth: usize) {
    let stdout = std::io::stdout();
    let mut out = std::io::BufWriter::with_capacity(1 << 20, stdout.lock());
    let mut st = Stats { scenarios: 0, violations: 0 };
    let mut rng = Rng(seed.wrapping_mul(0x9E3779B97F4A7C15) | 1);
    let params = P::params();
    for _ in 0..count {
        let param = params[rng.below(params.len())].clone();
        // the prefix is a random walk: replayed from scratch to learn the possible calls
        let len = rng.below(maxdepth + 1);
        let mut prefix: Vec<(usize, String)> = Vec::new();
        for _ in 0..len {
            let calls = calls_after_all::<P>(&param, &prefix);
            if calls.is_empty() {
                break;
            }
            let (a, c) = calls[rng.below(calls.len())];
            prefix.push((a, c.to_string()));
        }
        let calls = calls_after_all::<P>(&param, &prefix);
        if calls.is_empty() {
            continue;
        }
        let (a, c) = calls[rng.below(calls.len())];
        let mut inner: Vec<(usize, usize)> = (0..1 + rng.below(3)).map(|_| (rng.below(5), rng.below(1 << 20))).collect();
        inner.sort();
        let post: Vec<usize> = (0..rng.below(3)).map(|_| rng.below(1 << 20)).collect();
        let k = inner.iter().map(|x| x.0).max().unwrap_or(0);
        let o = scenario_w::<P>(&param, &prefix, (a, c), k, &inner, &post, true);
        emit(&o, &mut out, &mut st);
    }
    out.flush().unwrap();
    eprintln!("INJECT prim={} scenarios={} violations={}", P::name(), st.scenarios, st.violations);
}

/// the calls possible after `prefix`, for every agent
fn calls_after_all<P: Prim>(param: &str, prefix: &[(usize, String)]) -> Vec<(usize, &'static str)> {
    record_atomics(true);
    let p = P::new(param);
    let addrs = p.addrs();
    let run = Run { p, addrs, ev: RefCell::new(Vec::new()), viol: RefCell::new(None), depth: Cell::new(0) };
    for (a, c) in prefix {
        run.call(*a, c);
    }
    set_starvation_oracle(None);
    let mut all = Vec::new();
    for a in 0..P::agents() {
        for c in run.p.calls(a) {
            all.push((a, c));
        }
    }
    all
}

fn replay<P: Prim>(param: &str, key: &str) {
    let key = key.strip_prefix("S:").unwrap_or(key);
    let parts: Vec<&str> = key.split(';').collect();
    let pc = |s: &str| -> (usize, String) {
        let (a, c) = s.split_once('.').expect("agent.call");
        (a.parse().unwrap(), c.to_string())
    };
    let prefix: Vec<(usize, String)> = parts[0].split(',').filter(|s| !s.is_empty()).map(pc).collect();
    let outer = pc(parts[1]);
    let k: usize = parts[2].parse().unwrap();
    let inner: Vec<(usize, usize)> = parts
        .get(3)
        .unwrap_or(&"")
        .split(',')
        .filter(|s| !s.is_empty())
        .map(|s| match s.split_once(':') {
            Some((kk, j)) => (kk.parse().unwrap(), j.parse().unwrap()),
            None => (k, s.parse().unwrap()),
        })
        .collect();
    let p4 = parts.get(4).copied().unwrap_or("");
    let wrap = p4.ends_with('w');
    let post: Vec<usize> = p4.trim_end_matches('w').split(',').filter(|s| !s.is_empty()).map(|s| s.parse().unwrap()).collect();
    let o = scenario_w::<P>(param, &prefix, (outer.0, &outer.1), k, &inner, &post, wrap);
    println!("{}", o.line);
    if let Some(v) = o.viol {
        eprintln!("VIOLATION {}", v);
        std::process::exit(1);
    }
}

// ------------------------------------------------------------------ Mutex

enum MG {
    B(MutexGuard<'static, usize>),
    A(MutexGuardArc<usize>),
}

enum MSlot {
    Idle,
    Busy,
    Fut(BoxFut<MG>),
    /// the guard, and (parameter `keep=1`) the completed future that produced it
    Held(MG, Option<BoxFut<MG>>),
}

/// `slots` (futures and guards borrowing the primitive) is declared, and therefore dropped, before
/// the owner of the primitive.
struct MutexP<const N: usize> {
    slots: Vec<RefCell<MSlot>>,
    /// the agent's pending future is Arc-flavoured (it owns a clone of the Arc)
    arcfut: Vec<Cell<bool>>,
    grave: RefCell<Vec<BoxFut<MG>>>,
    wk: Wakers,
    keep: bool,
    m: &'static Arc<Mutex<usize>>,
    _own: Owner<Arc<Mutex<usize>>>,
}

impl<const N: usize> Prim for MutexP<N> {
    fn name() -> &'static str {
        "mutex"
    }
    fn agents() -> usize {
        N
    }
    fn params() -> Vec<String> {
        vec!["fire=0,keep=0".into(), "fire=1,keep=0".into(), "fire=0,keep=1".into(), "fire=1,keep=1".into()]
    }
    fn new(param: &str) -> Self {
        let fire = param.contains("fire=1");
        set_starvation_oracle(Some(Box::new(move || fire)));
        let (own, m) = Owner::new(Arc::new(Mutex::new(0)));
        MutexP { arcfut: (0..N).map(|_| Cell::new(false)).collect(), grave: RefCell::new(Vec::new()), keep: param.contains("keep=1"), m, _own: own, slots: (0..Self::agents()).map(|_| RefCell::new(MSlot::Idle)).collect(), wk: Wakers::new(Self::agents()) }
    }
    fn calls(&self, a: usize) -> Vec<&'static str> {
        match &*self.slots[a].borrow() {
            MSlot::Idle => vec!["tryLock", "tryLockArc", "lock", "lockArc"],
            MSlot::Busy => vec![],
            MSlot::Fut(_) => vec!["poll", "cancel"],
            MSlot::Held(..) => vec!["unlock"],
        }
    }
    fn exec(&self, a: usize, call: &str) -> &'static str {
        let slot = self.slots[a].replace(MSlot::Busy);
        let m = self.m;
        let (next, res) = match (slot, call) {
            (MSlot::Idle, "tryLock") => match m.try_lock() {
                Some(g) => (MSlot::Held(MG::B(g), None), "some"),
                None => (MSlot::Idle, "none"),
            },
            (MSlot::Idle, "tryLockArc") => match m.try_lock_arc() {
                Some(g) => (MSlot::Held(MG::A(g), None), "some"),
                None => (MSlot::Idle, "none"),
            },
            (MSlot::Idle, "lock") | (MSlot::Idle, "lockArc") => {
                let mut f: BoxFut<MG> = if call == "lock" { mapped(m.lock(), MG::B) } else { mapped(m.lock_arc(), MG::A) };
                self.arcfut[a].set(call == "lockArc");
                match self.wk.poll(a, &mut f) {
                    Poll::Ready(g) => (MSlot::Held(g, if self.keep { Some(f) } else { None }), "ready"),
                    Poll::Pending => (MSlot::Fut(f), "pending"),
                }
            }
            (MSlot::Fut(mut f), "poll") => match self.wk.poll(a, &mut f) {
                Poll::Ready(g) => (MSlot::Held(g, if self.keep { Some(f) } else { None }), "ready"),
                Poll::Pending => (MSlot::Fut(f), "pending"),
            },
            (MSlot::Fut(f), "cancel") => {
                self.wk.forget(a);
                drop(f);
                (MSlot::Idle, "ok")
            }
            (MSlot::Held(g, kept), "unlock") => {
                match g {
                    MG::B(g) => drop(g),
                    MG::A(g) => drop(g),
                }
                // a completed future that is kept alive stays alive to the end of the scenario
                self.grave.borrow_mut().extend(kept);
                (MSlot::Idle, "ok")
            }
            _ => panic!("invalid call {}", call),
        };
        *self.slots[a].borrow_mut() = next;
        res
    }
    fn addrs(&self) -> Vec<usize> {
        self.m.__verif_snapshot().addrs
    }
    fn monitor(&self, _nested: bool) -> Option<String> {
        let held = self.slots.iter().filter(|s| matches!(&*s.borrow(), MSlot::Held(..))).count();
        if held > 1 {
            return Some(format!("[C01,C14] {} mutex guards alive at once", held));
        }
        if !_nested && !self.keep {
            // C15: the strong count is the owner + owned guards + pending Arc-flavoured futures
            let mut want = 1;
            for (a, s) in self.slots.iter().enumerate() {
                match &*s.borrow() {
                    MSlot::Held(MG::A(_), _) => want += 1,
                    MSlot::Fut(_) if self.arcfut[a].get() => want += 1,
                    _ => {}
                }
            }
            let got = Arc::strong_count(self.m);
            if got != want {
                return Some(format!("[C15] Arc strong count is {} with {} owners alive", got, want));
            }
        }
        None
    }
    fn idle_probe(&self) -> Option<String> {
        // C14: nothing held, nothing pending: try_lock succeeds
        if self.m.try_lock().is_none() {
            return Some("[C14,C10] try_lock fails on a mutex that nobody holds or waits for".into());
        }
        None
    }
    fn woken(&self) -> Vec<(usize, &'static str)> {
        (0..Self::agents()).filter(|&a| matches!(&*self.slots[a].borrow(), MSlot::Fut(_)) && self.wk.is_woken(a)).map(|a| (a, "poll")).collect()
    }
    fn releasable(&self) -> Vec<(usize, &'static str)> {
        (0..Self::agents()).filter(|&a| matches!(&*self.slots[a].borrow(), MSlot::Held(..))).map(|a| (a, "unlock")).collect()
    }
    fn pending(&self) -> usize {
        self.slots.iter().filter(|s| matches!(&*s.borrow(), MSlot::Fut(_))).count()
    }
    fn wake_tags() -> &'static str {
        "[C05,C10]"
    }
    fn install_thread(param: &str) {
        let fire = param.contains("fire=1");
        set_starvation_oracle(Some(Box::new(move || fire)));
    }
}

// ------------------------------------------------------------------ Semaphore

enum SG {
    B(SemaphoreGuard<'static>),
    A(SemaphoreGuardArc),
}

enum SSlot {
    Idle,
    Busy,
    Fut(BoxFut<SG>),
    Held(SG, Option<BoxFut<SG>>),
}

struct SemP {
    slots: Vec<RefCell<SSlot>>,
    arcfut: Vec<Cell<bool>>,
    grave: RefCell<Vec<BoxFut<SG>>>,
    s: &'static Arc<Semaphore>,
    _own: Owner<Arc<Semaphore>>,
    init: usize,
    added: Cell<usize>,
    forgotten: Cell<usize>,
    wk: Wakers,
    keep: bool,
}

impl Prim for SemP {
    fn name() -> &'static str {
        "sem"
    }
    fn agents() -> usize {
        3
    }
    fn params() -> Vec<String> {
        vec!["0".into(), "1".into(), "2".into(), "1,keep=1".into()]
    }
    fn header_param(param: &str) -> String {
        param.split(',').next().unwrap().to_string()
    }
    fn new(param: &str) -> Self {
        let n: usize = param.split(',').next().unwrap().parse().unwrap();
        let (own, s) = Owner::new(Arc::new(Semaphore::new(n)));
        SemP {
            arcfut: (0..Self::agents()).map(|_| Cell::new(false)).collect(),
            grave: RefCell::new(Vec::new()),
            s,
            _own: own,
            slots: (0..Self::agents()).map(|_| RefCell::new(SSlot::Idle)).collect(),
            init: n,
            added: Cell::new(0),
            forgotten: Cell::new(0),
            wk: Wakers::new(Self::agents()),
            keep: param.contains("keep=1"),
        }
    }
    fn calls(&self, a: usize) -> Vec<&'static str> {
        match &*self.slots[a].borrow() {
            SSlot::Idle => vec!["tryAcq", "tryAcqArc", "acquire", "acquireArc", "add1"],
            SSlot::Busy => vec![],
            SSlot::Fut(_) => vec!["poll", "cancel"],
            SSlot::Held(..) => vec!["release", "forget"],
        }
    }
    fn exec(&self, a: usize, call: &str) -> &'static str {
        let slot = self.slots[a].replace(SSlot::Busy);
        let s = self.s;
        let (next, res) = match (slot, call) {
            (SSlot::Idle, "tryAcq") => match s.try_acquire() {
                Some(g) => (SSlot::Held(SG::B(g), None), "some"),
                None => (SSlot::Idle, "none"),
            },
            (SSlot::Idle, "tryAcqArc") => match s.try_acquire_arc() {
                Some(g) => (SSlot::Held(SG::A(g), None), "some"),
                None => (SSlot::Idle, "none"),
            },
            (SSlot::Idle, "acquire") | (SSlot::Idle, "acquireArc") => {
                let mut f: BoxFut<SG> = if call == "acquire" { mapped(s.acquire(), SG::B) } else { mapped(s.acquire_arc(), SG::A) };
                self.arcfut[a].set(call == "acquireArc");
                match self.wk.poll(a, &mut f) {
                    Poll::Ready(g) => (SSlot::Held(g, if self.keep { Some(f) } else { None }), "ready"),
                    Poll::Pending => (SSlot::Fut(f), "pending"),
                }
            }
            (SSlot::Idle, "add1") => {
                // counted before the call: the permit exists from the fetch_add on
                self.added.set(self.added.get() + 1);
                s.add_permits(1);
                (SSlot::Idle, "ok")
            }
            (SSlot::Fut(mut f), "poll") => match self.wk.poll(a, &mut f) {
                Poll::Ready(g) => (SSlot::Held(g, if self.keep { Some(f) } else { None }), "ready"),
                Poll::Pending => (SSlot::Fut(f), "pending"),
            },
            (SSlot::Fut(f), "cancel") => {
                self.wk.forget(a);
                drop(f);
                (SSlot::Idle, "ok")
            }
            (SSlot::Held(g, kept), "release") => {
                match g {
                    SG::B(g) => drop(g),
                    SG::A(g) => drop(g),
                }
                self.grave.borrow_mut().extend(kept);
                (SSlot::Idle, "ok")
            }
            (SSlot::Held(g, kept), "forget") => {
                self.forgotten.set(self.forgotten.get() + 1);
                match g {
                    SG::B(g) => g.forget(),
                    SG::A(g) => g.forget(),
                }
                self.grave.borrow_mut().extend(kept);
                (SSlot::Idle, "ok")
            }
            _ => panic!("invalid call {}", call),
        };
        *self.slots[a].borrow_mut() = next;
        res
    }
    fn addrs(&self) -> Vec<usize> {
        self.s.__verif_snapshot().addrs
    }
    fn monitor(&self, nested: bool) -> Option<String> {
        let held = self.slots.iter().filter(|s| matches!(&*s.borrow(), SSlot::Held(..))).count();
        let total = self.init + self.added.get();
        if held + self.forgotten.get() > total {
            return Some(format!("[C03,C14] {} permits out (held or forgotten) but only {} exist", held + self.forgotten.get(), total));
        }
        if !nested && !self.keep {
            let mut want = 1;
            for (a, s) in self.slots.iter().enumerate() {
                match &*s.borrow() {
                    SSlot::Held(SG::A(_), _) => want += 1,
                    SSlot::Fut(_) if self.arcfut[a].get() => want += 1,
                    _ => {}
                }
            }
            let got = Arc::strong_count(self.s);
            if got != want {
                return Some(format!("[C15] Arc strong count is {} with {} owners alive", got, want));
            }
        }
        if !nested {
            let count = self.s.__verif_snapshot().words[0];
            if count.wrapping_add(held).wrapping_add(self.forgotten.get()) != total {
                return Some(format!("[C03,C14,C10] count {} + held {} + forgotten {} != initial + added {}", count, held, self.forgotten.get(), total));
            }
        }
        None
    }
    fn woken(&self) -> Vec<(usize, &'static str)> {
        (0..Self::agents()).filter(|&a| matches!(&*self.slots[a].borrow(), SSlot::Fut(_)) && self.wk.is_woken(a)).map(|a| (a, "poll")).collect()
    }
    fn releasable(&self) -> Vec<(usize, &'static str)> {
        (0..Self::agents()).filter(|&a| matches!(&*self.slots[a].borrow(), SSlot::Held(..))).map(|a| (a, "release")).collect()
    }
    fn pending(&self) -> usize {
        self.slots.iter().filter(|s| matches!(&*s.borrow(), SSlot::Fut(_))).count()
    }
    fn must_finish(&self) -> bool {
        // a waiter may only remain if no permit is available
        self.s.__verif_snapshot().words[0] > 0
    }
    fn wake_tags() -> &'static str {
        "[C07,C10]"
    }
}

// ------------------------------------------------------------------ RwLock

enum RG {
    R(RwLockReadGuard<'static, usize>),
    RA(RwLockReadGuardArc<usize>),
    U(RwLockUpgradableReadGuard<'static, usize>),
    UA(RwLockUpgradableReadGuardArc<usize>),
    W(RwLockWriteGuard<'static, usize>),
    WA(RwLockWriteGuardArc<usize>),
}

impl RG {
    fn kind(&self) -> char {
        match self {
            RG::R(_) | RG::RA(_) => 'r',
            RG::U(_) | RG::UA(_) => 'u',
            RG::W(_) | RG::WA(_) => 'w',
        }
    }
}

type Kept = Vec<BoxFut<RG>>;

enum RSlot {
    Idle,
    Busy,
    /// the guard, and (parameter `keep=1`) the completed futures that led to it
    Held(RG, Kept),
    FutR(BoxFut<RG>),
    FutUp(BoxFut<RG>, Kept),
    FutW(BoxFut<RG>),
    FutU(BoxFut<RG>),
}

struct RwP {
    slots: Vec<RefCell<RSlot>>,
    /// the agent's pending upgrade is an `UpgradeArc`
    up_arc: Vec<Cell<bool>>,
    grave: RefCell<Kept>,
    wk: Wakers,
    keep: bool,
    l: &'static Arc<RwLock<usize>>,
    _own: Owner<Arc<RwLock<usize>>>,
}

impl RwP {
    /// first poll / re-poll of a future; `mk` rebuilds the pending slot
    fn drive(&self, a: usize, mut f: BoxFut<RG>, mut kept: Kept, mk: fn(BoxFut<RG>, Kept) -> RSlot) -> (RSlot, &'static str) {
        match self.wk.poll(a, &mut f) {
            Poll::Ready(g) => {
                if self.keep {
                    kept.push(f);
                }
                (RSlot::Held(g, kept), "ready")
            }
            Poll::Pending => (mk(f, kept), "pending"),
        }
    }
}

impl Prim for RwP {
    fn name() -> &'static str {
        "rwlock"
    }
    fn agents() -> usize {
        3
    }
    fn params() -> Vec<String> {
        vec!["fire=0,keep=0".into(), "fire=1,keep=0".into(), "fire=0,keep=1".into()]
    }
    fn new(param: &str) -> Self {
        let fire = param.contains("fire=1");
        set_starvation_oracle(Some(Box::new(move || fire)));
        let (own, l) = Owner::new(Arc::new(RwLock::new(0)));
        RwP {
            up_arc: (0..Self::agents()).map(|_| Cell::new(false)).collect(),
            grave: RefCell::new(Vec::new()),
            keep: param.contains("keep=1"),
            l,
            _own: own,
            slots: (0..Self::agents()).map(|_| RefCell::new(RSlot::Idle)).collect(),
            wk: Wakers::new(Self::agents()),
        }
    }
    fn calls(&self, a: usize) -> Vec<&'static str> {
        match &*self.slots[a].borrow() {
            RSlot::Idle => vec![
                "tryRead", "tryReadArc", "tryWrite", "tryWriteArc", "tryUread", "tryUreadArc", "read", "readArc", "write", "writeArc",
                "uread", "ureadArc",
            ],
            RSlot::Busy => vec![],
            RSlot::Held(g, _) => match g.kind() {
                'r' => vec!["dropR"],
                'u' => vec!["dropU", "tryUpgrade", "dgU", "upgrade"],
                _ => vec!["dropW", "dgW", "dgWU"],
            },
            RSlot::FutR(_) => vec!["pollR", "cancelR"],
            RSlot::FutUp(..) => vec!["pollUp", "cancelUp"],
            RSlot::FutW(_) => vec!["pollW", "cancelW"],
            RSlot::FutU(_) => vec!["pollU", "cancelU"],
        }
    }
    fn exec(&self, a: usize, call: &str) -> &'static str {
        let slot = self.slots[a].replace(RSlot::Busy);
        let l = self.l;
        let opt = |g: Option<RG>| match g {
            Some(g) => (RSlot::Held(g, Vec::new()), "some"),
            None => (RSlot::Idle, "none"),
        };
        let (next, res) = match (slot, call) {
            (RSlot::Idle, "tryRead") => opt(l.try_read().map(RG::R)),
            (RSlot::Idle, "tryReadArc") => opt(l.try_read_arc().map(RG::RA)),
            (RSlot::Idle, "tryWrite") => opt(l.try_write().map(RG::W)),
            (RSlot::Idle, "tryWriteArc") => opt(l.try_write_arc().map(RG::WA)),
            (RSlot::Idle, "tryUread") => opt(l.try_upgradable_read().map(RG::U)),
            (RSlot::Idle, "tryUreadArc") => opt(l.try_upgradable_read_arc().map(RG::UA)),
            // the futures are created here: `RawRead::new` loads the word
            (RSlot::Idle, "read") => self.drive(a, mapped(l.read(), RG::R), Vec::new(), |f, _| RSlot::FutR(f)),
            (RSlot::Idle, "readArc") => self.drive(a, mapped(l.read_arc(), RG::RA), Vec::new(), |f, _| RSlot::FutR(f)),
            (RSlot::FutR(f), "pollR") => self.drive(a, f, Vec::new(), |f, _| RSlot::FutR(f)),
            (RSlot::Idle, "write") => self.drive(a, mapped(l.write(), RG::W), Vec::new(), |f, _| RSlot::FutW(f)),
            (RSlot::Idle, "writeArc") => self.drive(a, mapped(l.write_arc(), RG::WA), Vec::new(), |f, _| RSlot::FutW(f)),
            (RSlot::FutW(f), "pollW") => self.drive(a, f, Vec::new(), |f, _| RSlot::FutW(f)),
            (RSlot::Idle, "uread") => self.drive(a, mapped(l.upgradable_read(), RG::U), Vec::new(), |f, _| RSlot::FutU(f)),
            (RSlot::Idle, "ureadArc") => self.drive(a, mapped(l.upgradable_read_arc(), RG::UA), Vec::new(), |f, _| RSlot::FutU(f)),
            (RSlot::FutU(f), "pollU") => self.drive(a, f, Vec::new(), |f, _| RSlot::FutU(f)),
            (RSlot::FutR(f), "cancelR") | (RSlot::FutW(f), "cancelW") | (RSlot::FutU(f), "cancelU") => {
                self.wk.forget(a);
                drop(f);
                (RSlot::Idle, "ok")
            }
            (RSlot::Held(g, kept), "dropR") | (RSlot::Held(g, kept), "dropU") | (RSlot::Held(g, kept), "dropW") => {
                drop(g);
                self.grave.borrow_mut().extend(kept);
                (RSlot::Idle, "ok")
            }
            (RSlot::Held(RG::U(g), k), "tryUpgrade") => match RwLockUpgradableReadGuard::try_upgrade(g) {
                Ok(w) => (RSlot::Held(RG::W(w), k), "ok"),
                Err(g) => (RSlot::Held(RG::U(g), k), "err"),
            },
            (RSlot::Held(RG::UA(g), k), "tryUpgrade") => match RwLockUpgradableReadGuardArc::try_upgrade(g) {
                Ok(w) => (RSlot::Held(RG::WA(w), k), "ok"),
                Err(g) => (RSlot::Held(RG::UA(g), k), "err"),
            },
            (RSlot::Held(RG::U(g), k), "dgU") => (RSlot::Held(RG::R(RwLockUpgradableReadGuard::downgrade(g)), k), "ok"),
            (RSlot::Held(RG::UA(g), k), "dgU") => (RSlot::Held(RG::RA(RwLockUpgradableReadGuardArc::downgrade(g)), k), "ok"),
            (RSlot::Held(RG::W(g), k), "dgW") => (RSlot::Held(RG::R(RwLockWriteGuard::downgrade(g)), k), "ok"),
            (RSlot::Held(RG::WA(g), k), "dgW") => (RSlot::Held(RG::RA(RwLockWriteGuardArc::downgrade(g)), k), "ok"),
            (RSlot::Held(RG::W(g), k), "dgWU") => (RSlot::Held(RG::U(RwLockWriteGuard::downgrade_to_upgradable(g)), k), "ok"),
            (RSlot::Held(RG::WA(g), k), "dgWU") => (RSlot::Held(RG::UA(RwLockWriteGuardArc::downgrade_to_upgradable(g)), k), "ok"),
            // `upgrade()` itself performs the `fetch_sub`
            (RSlot::Held(RG::U(g), k), "upgrade") => {
                self.up_arc[a].set(false);
                self.drive(a, mapped(RwLockUpgradableReadGuard::upgrade(g), RG::W), k, RSlot::FutUp)
            }
            (RSlot::Held(RG::UA(g), k), "upgrade") => {
                self.up_arc[a].set(true);
                self.drive(a, mapped(RwLockUpgradableReadGuardArc::upgrade(g), RG::WA), k, RSlot::FutUp)
            }
            (RSlot::FutUp(f, k), "pollUp") => self.drive(a, f, k, RSlot::FutUp),
            (RSlot::FutUp(f, k), "cancelUp") => {
                self.wk.forget(a);
                drop(f);
                drop(k);
                (RSlot::Idle, "ok")
            }
            _ => panic!("invalid call {}", call),
        };
        *self.slots[a].borrow_mut() = next;
        res
    }
    fn addrs(&self) -> Vec<usize> {
        self.l.__verif_snapshot().addrs
    }
    fn monitor(&self, _nested: bool) -> Option<String> {
        let (mut r, mut u, mut w) = (0, 0, 0);
        for s in &self.slots {
            if let RSlot::Held(g, _) = &*s.borrow() {
                match g.kind() {
                    'r' => r += 1,
                    'u' => u += 1,
                    _ => w += 1,
                }
            }
        }
        if w > 1 || (w == 1 && r + u > 0) {
            return Some(format!("[C02,C11,C14] write guard alive together with {} write, {} upgradable, {} read guards", w - 1, u, r));
        } else if u > 1 {
            return Some(format!("[C02,C11,C14] {} upgradable guards alive at once", u));
        }
        if !_nested && !self.keep {
            // C15: owner + owned guards + pending `UpgradeArc` futures (which own their guard's Arc);
            // the other Arc-flavoured futures borrow the Arc until they complete
            let mut want = 1;
            for (a, s) in self.slots.iter().enumerate() {
                match &*s.borrow() {
                    RSlot::Held(RG::RA(_), _) | RSlot::Held(RG::UA(_), _) | RSlot::Held(RG::WA(_), _) => want += 1,
                    RSlot::FutUp(..) if self.up_arc[a].get() => want += 1,
                    _ => {}
                }
            }
            let got = Arc::strong_count(self.l);
            if got != want {
                return Some(format!("[C15] Arc strong count is {} with {} owners alive", got, want));
            }
        }
        None
    }
    fn final_probe(&self) -> Option<String> {
        // C12: a polled writer or upgrade is pending, no write or upgradable guard is alive, every
        // woken task has been polled again: readers are refused
        let pending_writer = self.slots.iter().any(|s| matches!(&*s.borrow(), RSlot::FutW(_) | RSlot::FutUp(..)));
        let wu_guard = self.slots.iter().any(|s| matches!(&*s.borrow(), RSlot::Held(g, _) if g.kind() != 'r'));
        if pending_writer && !wu_guard && !self.wk.any_woken() {
            if let Some(g) = self.l.try_read() {
                // put things back as they were before reporting
                drop(g);
                return Some("[C12] try_read succeeds while a polled writer is pending at quiescence".into());
            }
        }
        None
    }
    fn idle_probe(&self) -> Option<String> {
        // C14: nothing held, nothing pending: try_write succeeds
        if self.l.try_write().is_none() {
            return Some("[C14,C10] try_write fails on a lock that nobody holds or waits for".into());
        }
        None
    }
    fn woken(&self) -> Vec<(usize, &'static str)> {
        let mut v = Vec::new();
        for a in 0..Self::agents() {
            if self.wk.is_woken(a) {
                match &*self.slots[a].borrow() {
                    RSlot::FutR(_) => v.push((a, "pollR")),
                    RSlot::FutW(_) => v.push((a, "pollW")),
                    RSlot::FutU(_) => v.push((a, "pollU")),
                    RSlot::FutUp(..) => v.push((a, "pollUp")),
                    _ => {}
                }
            }
        }
        v
    }
    fn releasable(&self) -> Vec<(usize, &'static str)> {
        let mut v = Vec::new();
        for a in 0..Self::agents() {
            if let RSlot::Held(g, _) = &*self.slots[a].borrow() {
                v.push((a, match g.kind() {
                    'r' => "dropR",
                    'u' => "dropU",
                    _ => "dropW",
                }));
            }
        }
        v
    }
    fn pending(&self) -> usize {
        self.slots.iter().filter(|s| matches!(&*s.borrow(), RSlot::FutR(_) | RSlot::FutW(_) | RSlot::FutU(_) | RSlot::FutUp(..))).count()
    }
    fn wake_tags() -> &'static str {
        "[C06,C10]"
    }
    fn install_thread(param: &str) {
        let fire = param.contains("fire=1");
        set_starvation_oracle(Some(Box::new(move || fire)));
    }
}

// ------------------------------------------------------------------ OnceCell

enum OSlot {
    Idle,
    Busy,
    Fut(BoxFut<Result<usize, ()>>),
}

struct OnceP {
    slots: Vec<RefCell<OSlot>>,
    c: &'static OnceCell<usize>,
    _own: Owner<OnceCell<usize>>,
    /// initialisers that ran to `Ok`
    inits: Rc<Cell<usize>>,
    /// values handed out so far
    seen: RefCell<Vec<usize>>,
    wk: Wakers,
}

impl OnceP {
    fn saw(&self, v: usize) {
        self.seen.borrow_mut().push(v);
    }
}

impl Prim for OnceP {
    fn name() -> &'static str {
        "once"
    }
    fn agents() -> usize {
        3
    }
    fn params() -> Vec<String> {
        vec!["-".into()]
    }
    fn new(_param: &str) -> Self {
        let (own, c) = Owner::new(OnceCell::new());
        OnceP {
            c,
            _own: own,
            slots: (0..Self::agents()).map(|_| RefCell::new(OSlot::Idle)).collect(),
            inits: Rc::new(Cell::new(0)),
            seen: RefCell::new(Vec::new()),
            wk: Wakers::new(Self::agents()),
        }
    }
    fn calls(&self, a: usize) -> Vec<&'static str> {
        match &*self.slots[a].borrow() {
            OSlot::Idle => vec!["get", "init", "tryInitErr", "set"],
            OSlot::Busy => vec![],
            OSlot::Fut(_) => vec!["poll", "cancel"],
        }
    }
    fn exec(&self, a: usize, call: &str) -> &'static str {
        let slot = self.slots[a].replace(OSlot::Busy);
        let c = self.c;
        let fin = |s: &Self, mut f: BoxFut<Result<usize, ()>>| match s.wk.poll(a, &mut f) {
            Poll::Ready(Ok(v)) => {
                s.saw(v);
                (OSlot::Idle, "ready")
            }
            Poll::Ready(Err(())) => (OSlot::Idle, "err"),
            Poll::Pending => (OSlot::Fut(f), "pending"),
        };
        let (next, res) = match (slot, call) {
            (OSlot::Idle, "get") => match c.get() {
                Some(v) => {
                    self.saw(*v);
                    (OSlot::Idle, "some")
                }
                None => (OSlot::Idle, "none"),
            },
            (OSlot::Idle, "init") => {
                let inits = self.inits.clone();
                let v = 10 + a;
                fin(
                    self,
                    mapped(
                        async move {
                            Ok(*c
                                .get_or_init(|| async move {
                                    inits.set(inits.get() + 1);
                                    v
                                })
                                .await)
                        },
                        |x| x,
                    ),
                )
            }
            (OSlot::Idle, "tryInitErr") => fin(
                self,
                mapped(async move { c.get_or_try_init(|| async move { Err::<usize, ()>(()) }).await.map(|v| *v) }, |x| x),
            ),
            (OSlot::Idle, "set") => {
                let inits = self.inits.clone();
                let v = 20 + a;
                fin(
                    self,
                    mapped(
                        async move {
                            match c.set(v).await {
                                Ok(r) => {
                                    inits.set(inits.get() + 1);
                                    Ok(*r)
                                }
                                Err(_) => Err(()),
                            }
                        },
                        |x| x,
                    ),
                )
            }
            (OSlot::Fut(f), "poll") => fin(self, f),
            (OSlot::Fut(f), "cancel") => {
                self.wk.forget(a);
                drop(f);
                (OSlot::Idle, "ok")
            }
            _ => panic!("invalid call {}", call),
        };
        *self.slots[a].borrow_mut() = next;
        res
    }
    fn addrs(&self) -> Vec<usize> {
        self.c.__verif_snapshot().addrs
    }
    fn monitor(&self, _nested: bool) -> Option<String> {
        if self.inits.get() > 1 {
            return Some(format!("[C04] {} initialisers ran to completion", self.inits.get()));
        }
        let seen = self.seen.borrow();
        if let Some(&first) = seen.first() {
            if seen.iter().any(|&v| v != first) {
                return Some(format!("[C04] different values were handed out: {:?}", *seen));
            }
        }
        None
    }
    fn woken(&self) -> Vec<(usize, &'static str)> {
        (0..Self::agents()).filter(|&a| matches!(&*self.slots[a].borrow(), OSlot::Fut(_)) && self.wk.is_woken(a)).map(|a| (a, "poll")).collect()
    }
    fn releasable(&self) -> Vec<(usize, &'static str)> {
        Vec::new()
    }
    fn pending(&self) -> usize {
        self.slots.iter().filter(|s| matches!(&*s.borrow(), OSlot::Fut(_))).count()
    }
    fn wake_tags() -> &'static str {
        "[C08]"
    }
}

// ------------------------------------------------------------------ Barrier

enum BSlot {
    Idle,
    Busy,
    Fut(BoxFut<bool>),
}

struct BarrierP {
    slots: Vec<RefCell<BSlot>>,
    wk: Wakers,
    n: usize,
    leaders: Cell<usize>,
    followers: Cell<usize>,
    b: &'static Barrier,
    _own: Owner<Barrier>,
}

impl Prim for BarrierP {
    fn name() -> &'static str {
        "barrier"
    }
    fn agents() -> usize {
        4
    }
    fn params() -> Vec<String> {
        vec!["2,fire=0".into(), "3,fire=0".into(), "2,fire=1".into(), "1,fire=0".into(), "0,fire=0".into()]
    }
    fn header_param(param: &str) -> String {
        param.split(',').next().unwrap().to_string()
    }
    fn new(param: &str) -> Self {
        let n: usize = param.split(',').next().unwrap().parse().unwrap();
        let fire = param.contains("fire=1");
        set_starvation_oracle(Some(Box::new(move || fire)));
        let (own, b) = Owner::new(Barrier::new(n));
        BarrierP {
            slots: (0..Self::agents()).map(|_| RefCell::new(BSlot::Idle)).collect(),
            wk: Wakers::new(Self::agents()),
            n,
            leaders: Cell::new(0),
            followers: Cell::new(0),
            b,
            _own: own,
        }
    }
    fn calls(&self, a: usize) -> Vec<&'static str> {
        match &*self.slots[a].borrow() {
            BSlot::Idle => vec!["wait"],
            BSlot::Busy => vec![],
            BSlot::Fut(_) => vec!["poll", "cancel"],
        }
    }
    fn exec(&self, a: usize, call: &str) -> &'static str {
        let slot = self.slots[a].replace(BSlot::Busy);
        let b = self.b;
        let fin = |s: &Self, mut f: BoxFut<bool>| match s.wk.poll(a, &mut f) {
            Poll::Ready(true) => {
                s.leaders.set(s.leaders.get() + 1);
                (BSlot::Idle, "leader")
            }
            Poll::Ready(false) => {
                s.followers.set(s.followers.get() + 1);
                (BSlot::Idle, "follower")
            }
            Poll::Pending => (BSlot::Fut(f), "pending"),
        };
        let (next, res) = match (slot, call) {
            (BSlot::Idle, "wait") => fin(self, mapped(b.wait(), |r| r.is_leader())),
            (BSlot::Fut(f), "poll") => fin(self, f),
            (BSlot::Fut(f), "cancel") => {
                self.wk.forget(a);
                drop(f);
                (BSlot::Idle, "ok")
            }
            _ => panic!("invalid call {}", call),
        };
        *self.slots[a].borrow_mut() = next;
        res
    }
    fn addrs(&self) -> Vec<usize> {
        self.b.__verif_snapshot().addrs
    }
    fn monitor(&self, nested: bool) -> Option<String> {
        if nested {
            // the counters are read unlocked: only between calls
            return None;
        }
        let snap = self.b.__verif_snapshot();
        let gen = snap.words[2];
        if self.leaders.get() != gen {
            return Some(format!("[C09] {} generations completed but {} leaders reported", gen, self.leaders.get()));
        }
        if self.followers.get() > gen * self.n.saturating_sub(1) {
            return Some(format!("[C09] {} followers released by {} completed generations of {}", self.followers.get(), gen, self.n));
        }
        if self.n >= 1 && snap.words[1] >= self.n {
            return Some(format!("[C09] {} arrivals in the current generation of a barrier of {}", snap.words[1], self.n));
        }
        // between calls nobody holds the state mutex; a pending wait may own a starvation ticket
        if snap.words[0] % 2 != 0 || snap.words[0] / 2 > self.pending() {
            return Some(format!("[C09] the state mutex is left at {} between calls with {} waits pending", snap.words[0], self.pending()));
        }
        None
    }
    fn woken(&self) -> Vec<(usize, &'static str)> {
        (0..Self::agents()).filter(|&a| matches!(&*self.slots[a].borrow(), BSlot::Fut(_)) && self.wk.is_woken(a)).map(|a| (a, "poll")).collect()
    }
    fn releasable(&self) -> Vec<(usize, &'static str)> {
        Vec::new()
    }
    fn pending(&self) -> usize {
        self.slots.iter().filter(|s| matches!(&*s.borrow(), BSlot::Fut(_))).count()
    }
    fn lost(&self) -> bool {
        // whoever is still pending at quiescence has arrived in the current, incomplete generation
        // (a barrier of 0 or 1 never makes anybody wait)
        self.pending() > self.b.__verif_snapshot().words[1] || (self.n <= 1 && self.pending() > 0)
    }
    fn wake_tags() -> &'static str {
        "[C09]"
    }
    fn install_thread(param: &str) {
        let fire = param.contains("fire=1");
        set_starvation_oracle(Some(Box::new(move || fire)));
    }
}

// ------------------------------------------------------------------ deterministic scheduler
//
// Every agent's calls run on the agent's own thread. Hook H4 parks the thread after each of its
// atomic operations; the controller (the main thread) decides which agent takes the next step. Only
// one thread runs at any time, so an execution is a sequentially consistent interleaving of the
// calls at the granularity of single atomic operations - any interleaving, not only the nested
// ones of the injection mode. Explored depth-first with a bound on the number of calls started and
// on the number of preemptions (switching away from an agent that is in the middle of a call).

struct Shared<P>(P);
// only one thread touches the world at a time, and the hand-over goes through channels
unsafe impl<P> Send for Shared<P> {}
unsafe impl<P> Sync for Shared<P> {}

/// single-producer single-consumer hand-over cell; the receiver spins (a hand-over through a
/// blocking channel costs a thread wake-up, tens of microseconds, at every step of every schedule)
struct Mailbox<T> {
    full: AtomicBool,
    slot: std::sync::Mutex<Option<T>>,
}

impl<T> Mailbox<T> {
    fn new() -> Arc<Self> {
        Arc::new(Mailbox { full: AtomicBool::new(false), slot: std::sync::Mutex::new(None) })
    }
    fn send(&self, v: T) {
        *self.slot.lock().unwrap() = Some(v);
        self.full.store(true, Ordering::Release);
    }
    fn recv(&self) -> T {
        let mut n = 0u32;
        while !self.full.load(Ordering::Acquire) {
            std::hint::spin_loop();
            n += 1;
            if n > 1 << 22 {
                // idle for a long time (another mode is running): stop burning a core
                std::thread::sleep(std::time::Duration::from_micros(200));
            } else if n > 1 << 12 {
                // fewer cores than threads: let the thread we are waiting for run
                std::thread::yield_now();
            }
        }
        self.full.store(false, Ordering::Relaxed);
        self.slot.lock().unwrap().take().unwrap()
    }
}

enum Cmd<P: Prim> {
    Init(Arc<Shared<P>>, String),
    Call(&'static str),
    Go,
    Reset,
    Quit,
}

enum Evt {
    Ack,
    Point(Vec<async_lock::__verif::AtomicOp>),
    Done(&'static str, Vec<async_lock::__verif::AtomicOp>),
}

fn worker<P: Prim>(a: usize, rx: Arc<Mailbox<Cmd<P>>>, tx: Arc<Mailbox<Evt>>) {
    record_atomics(true);
    let mut world: Option<Arc<Shared<P>>> = None;
    loop {
        match rx.recv() {
            Cmd::Init(w, param) => {
                P::install_thread(&param);
                world = Some(w);
                let _ = take_atomic_log();
                tx.send(Evt::Ack);
            }
            Cmd::Call(c) => {
                let (rx2, tx2) = (rx.clone(), tx.clone());
                let mut n = 0usize;
                set_preempt_hook(Some(Box::new(move || {
                    n += 1;
                    // the hook runs before and after each operation: park after it
                    if n % 2 == 0 {
                        tx2.send(Evt::Point(take_atomic_log()));
                        match rx2.recv() {
                            Cmd::Go => {}
                            _ => panic!("unexpected command at a preemption point"),
                        }
                    }
                })));
                let r = world.as_ref().unwrap().0.exec(a, c);
                set_preempt_hook(None);
                tx.send(Evt::Done(r, take_atomic_log()));
            }
            Cmd::Reset => {
                world = None;
                set_starvation_oracle(None);
                tx.send(Evt::Ack);
            }
            Cmd::Quit => return,
            Cmd::Go => panic!("Go without a call in flight"),
        }
    }
}

#[derive(Clone, Copy, PartialEq)]
enum Choice {
    Start(usize, &'static str),
    Step(usize),
}

struct Sched<P: Prim> {
    tx: Vec<Arc<Mailbox<Cmd<P>>>>,
    rx: Vec<Arc<Mailbox<Evt>>>,
}

impl<P: Prim> Sched<P> {
    fn new() -> Self {
        let (mut txs, mut rxs) = (Vec::new(), Vec::new());
        for a in 0..P::agents() {
            let mc = Mailbox::<Cmd<P>>::new();
            let me = Mailbox::<Evt>::new();
            let (mc2, me2) = (mc.clone(), me.clone());
            std::thread::spawn(move || worker::<P>(a, mc2, me2));
            txs.push(mc);
            rxs.push(me);
        }
        Sched { tx: txs, rx: rxs }
    }
}

struct SchedOut {
    line: String,
    viol: Option<String>,
    /// state after the schedule proper (before everybody is run to completion)
    mid: Vec<bool>,
    calls: Vec<Vec<&'static str>>,
}

fn fmt_ops(addrs: &[usize], agent: usize, ops: Vec<async_lock::__verif::AtomicOp>, ev: &mut Vec<String>) {
    for op in ops {
        let w = addrs.iter().position(|&x| x == op.addr).map(|x| x as i64).unwrap_or(9);
        let (kind, ret) = match (op.op, op.ret) {
            (_, None) => ("none", 0),
            ("cas", Some(v)) | ("casw", Some(v)) => (if op.ok { "ok" } else { "err" }, v),
            (_, Some(v)) => ("val", v),
        };
        let a = if op.op == "fand" { (op.args[0] as i64).to_string() } else { op.args[0].to_string() };
        ev.push(format!("A{}:{}:{}:{}:{}:{}:{}", agent, w, op.op, a, op.args[1], kind, ret));
    }
}

fn run_schedule<P: Prim>(sc: &Sched<P>, param: &str, sched: &[Choice], full: bool) -> SchedOut {
    record_atomics(true);
    let _ = take_atomic_log();
    let world = Arc::new(Shared(P::new(param)));
    let addrs = world.0.addrs();
    let _ = take_atomic_log();
    let n = P::agents();
    for a in 0..n {
        sc.tx[a].send(Cmd::Init(world.clone(), param.to_string()));
        match sc.rx[a].recv() {
            Evt::Ack => {}
            _ => panic!("worker did not acknowledge"),
        }
    }
    let mut ev: Vec<String> = Vec::new();
    let mut viol: Option<String> = None;
    let mut mid = vec![false; n];
    let check = |ev: &mut Vec<String>, viol: &mut Option<String>, mid: &Vec<bool>| {
        if viol.is_none() {
            if let Some(v) = world.0.monitor(mid.iter().any(|&m| m)) {
                let v = v.replace(' ', "_");
                ev.push(format!("V:{}", v));
                *viol = Some(v);
            }
        }
    };
    // one step of agent `a`: until its next preemption point or the end of its call
    let advance = |a: usize, ev: &mut Vec<String>, mid: &mut Vec<bool>| match sc.rx[a].recv() {
        Evt::Point(ops) => {
            fmt_ops(&addrs, a, ops, ev);
            mid[a] = true;
        }
        Evt::Done(r, ops) => {
            fmt_ops(&addrs, a, ops, ev);
            ev.push(format!("R{}:{}", a, r));
            mid[a] = false;
        }
        Evt::Ack => panic!("unexpected Ack"),
    };
    for &ch in sched {
        match ch {
            Choice::Start(a, c) => {
                ev.push(format!("B{}:{}", a, c));
                sc.tx[a].send(Cmd::Call(c));
                advance(a, &mut ev, &mut mid);
            }
            Choice::Step(a) => {
                sc.tx[a].send(Cmd::Go);
                advance(a, &mut ev, &mut mid);
            }
        }
        check(&mut ev, &mut viol, &mid);
    }
    let mid_after = mid.clone();
    let calls: Vec<Vec<&'static str>> = (0..n).map(|a| world.0.calls(a)).collect();
    // everybody finishes, in agent order
    for a in 0..n {
        while mid[a] {
            sc.tx[a].send(Cmd::Go);
            advance(a, &mut ev, &mut mid);
            check(&mut ev, &mut viol, &mid);
        }
    }
    // probes and drain, on this thread (as in the injection mode)
    let p = &world.0;
    let call = |a: usize, c: &str, ev: &mut Vec<String>, viol: &mut Option<String>| {
        ev.push(format!("B{}:{}", a, c));
        let r = p.exec(a, c);
        fmt_ops(&addrs, a, take_atomic_log(), ev);
        ev.push(format!("R{}:{}", a, r));
        if viol.is_none() {
            if let Some(v) = p.monitor(false) {
                let v = v.replace(' ', "_");
                ev.push(format!("V:{}", v));
                *viol = Some(v);
            }
        }
    };
    let mut probe_viol: Option<String> = None;
    if viol.is_none() && full {
        let v = p.final_probe();
        let _ = take_atomic_log();
        if let Some(v) = v {
            let v = v.replace(' ', "_");
            ev.push(format!("V:{}", v));
            probe_viol = Some(v);
        }
    }
    let mut polls = 0usize;
    while viol.is_none() && full {
        let w = p.woken();
        if !w.is_empty() {
            for (a, c) in w {
                call(a, c, &mut ev, &mut viol);
                polls += 1;
            }
            if polls > 60 && viol.is_none() {
                let v = format!("[C17]_after_{}_re-polls_the_futures_still_wake_each_other", polls);
                ev.push(format!("V:{}", v));
                viol = Some(v);
            }
            continue;
        }
        match p.releasable().first() {
            Some(&(a, c)) => call(a, c, &mut ev, &mut viol),
            None => break,
        }
    }
    if viol.is_none() && full {
        let npend = p.pending();
        let v = if p.lost() {
            Some(format!("{} lost wake-up: nothing is held, nobody is woken, {} future(s) still pending", P::wake_tags(), npend))
        } else if npend == 0 {
            let v = p.idle_probe();
            let _ = take_atomic_log();
            v
        } else {
            None
        };
        if let Some(v) = v {
            let v = v.replace(' ', "_");
            ev.push(format!("V:{}", v));
            viol = Some(v);
        }
    }
    set_starvation_oracle(None);
    for a in 0..n {
        sc.tx[a].send(Cmd::Reset);
        match sc.rx[a].recv() {
            Evt::Ack => {}
            _ => panic!("worker did not acknowledge"),
        }
    }
    let key = format!(
        "S:T{}",
        sched
            .iter()
            .map(|c| match c {
                Choice::Start(a, c) => format!("{}.{}", a, c),
                Choice::Step(a) => format!("s{}", a),
            })
            .collect::<Vec<_>>()
            .join(",")
    );
    let line = format!("{} {} {} | {} {}", P::name(), P::agents(), P::header_param(param), key, ev.join(" "));
    let viol = viol.or(probe_viol);
    if viol.is_some() {
        std::mem::forget(world);
    }
    SchedOut { line, viol, mid: mid_after, calls }
}

struct Bounds {
    calls: usize,
    preempts: usize,
    steps: usize,
}

fn explore_sched<P: Prim>(sc: &Sched<P>, param: &str, prefix: &mut Vec<Choice>, cur: Option<usize>, started: usize, used: usize, b: &Bounds, pre_left: usize, out: &mut dyn Write, st: &mut Stats) {
    // the state after the prefix decides what can follow
    let o = run_schedule::<P>(sc, param, prefix, false);
    let n = P::agents();
    // switching away from an agent that is in the middle of a call is a preemption
    let cost = |a: usize| match cur {
        Some(c) if c != a && o.mid[c] => 1,
        _ => 0,
    };
    let mut children: Vec<(Choice, usize, usize, usize)> = Vec::new();
    if o.viol.is_none() && prefix.len() < b.steps {
        for a in 0..n {
            if o.mid[a] {
                if cost(a) <= pre_left {
                    children.push((Choice::Step(a), started, used, pre_left - cost(a)));
                }
            } else if started < b.calls && a <= used && cost(a) <= pre_left {
                // agents are interchangeable: a fresh agent is the one with the smallest unused index
                for &c in &o.calls[a] {
                    children.push((Choice::Start(a, c), started + 1, used.max(a + 1), pre_left - cost(a)));
                }
            }
        }
    }
    if children.is_empty() {
        // a leaf: the whole scenario, with probes and drain
        let o = run_schedule::<P>(sc, param, prefix, true);
        st.scenarios += 1;
        if o.viol.is_some() {
            st.violations += 1;
        }
        writeln!(out, "{}", o.line).unwrap();
        return;
    }
    for (ch, started2, used2, pre2) in children {
        let a = match ch {
            Choice::Start(a, _) | Choice::Step(a) => a,
        };
        prefix.push(ch);
        explore_sched::<P>(sc, param, prefix, Some(a), started2, used2, b, pre2, out, st);
        prefix.pop();
    }
}

fn run_sched<P: Prim>(calls: usize, preempts: usize, steps: usize) {
    let stdout = std::io::stdout();
    let mut out = std::io::BufWriter::with_capacity(1 << 20, stdout.lock());
    let mut st = Stats { scenarios: 0, violations: 0 };
    let sc = Sched::<P>::new();
    let b = Bounds { calls, preempts, steps };
    for param in P::params() {
        explore_sched::<P>(&sc, &param, &mut Vec::new(), None, 0, 0, &b, b.preempts, &mut out, &mut st);
    }
    for t in &sc.tx {
        t.send(Cmd::Quit);
    }
    out.flush().unwrap();
    eprintln!("INJECT prim={} scenarios={} violations={}", P::name(), st.scenarios, st.violations);
}

fn replay_sched<P: Prim>(param: &str, key: &str) {
    let key = key.strip_prefix("S:").unwrap_or(key);
    let key = key.strip_prefix('T').unwrap_or(key);
    let sc = Sched::<P>::new();
    // the call names have to be 'static: look them up among the names the primitive knows
    let mut sched: Vec<Choice> = Vec::new();
    for item in key.split(',').filter(|s| !s.is_empty()) {
        if let Some(a) = item.strip_prefix('s') {
            if let Ok(a) = a.parse::<usize>() {
                sched.push(Choice::Step(a));
                continue;
            }
        }
        let (a, c) = item.split_once('.').expect("agent.call");
        let a: usize = a.parse().unwrap();
        // run the schedule so far to learn the (static) names of the possible calls
        let o = run_schedule::<P>(&sc, param, &sched, false);
        let name = o.calls[a].iter().copied().find(|n| *n == c).expect("call not possible here");
        sched.push(Choice::Start(a, name));
    }
    let o = run_schedule::<P>(&sc, param, &sched, true);
    println!("{}", o.line);
    for t in &sc.tx {
        t.send(Cmd::Quit);
    }
    if let Some(v) = o.viol {
        eprintln!("VIOLATION {}", v);
        std::process::exit(1);
    }
}

fn main() {
    let args: Vec<String> = std::env::args().collect();
    match args.get(1).map(|s| s.as_str()) {
        Some("replay") => {
            let (prim, param, key) = (&args[2], &args[3], &args[4]);
            if key.trim_start_matches("S:").starts_with('T') {
                match prim.as_str() {
                    "mutex" => replay_sched::<MutexP<3>>(param, key),
                    "mutex5" => replay_sched::<MutexP<5>>(param, key),
                    "sem" => replay_sched::<SemP>(param, key),
                    "rwlock" => replay_sched::<RwP>(param, key),
                    "once" => replay_sched::<OnceP>(param, key),
                    "barrier" => replay_sched::<BarrierP>(param, key),
                    _ => panic!("unknown primitive"),
                }
                return;
            }
            match prim.as_str() {
                "mutex" => replay::<MutexP<3>>(param, key),
                "mutex5" => replay::<MutexP<5>>(param, key),
                "sem" => replay::<SemP>(param, key),
                "rwlock" => replay::<RwP>(param, key),
                "once" => replay::<OnceP>(param, key),
                "barrier" => replay::<BarrierP>(param, key),
                _ => panic!("unknown primitive"),
            }
        }
        Some("sched") => {
            // inject sched <prim> <calls> <preemptions> <steps>
            let (prim, calls, pre, steps): (&str, usize, usize, usize) =
                (&args[2], args[3].parse().expect("calls"), args[4].parse().expect("preemptions"), args[5].parse().expect("steps"));
            match prim {
                "mutex" => run_sched::<MutexP<3>>(calls, pre, steps),
                "mutex5" => run_sched::<MutexP<5>>(calls, pre, steps),
                "sem" => run_sched::<SemP>(calls, pre, steps),
                "rwlock" => run_sched::<RwP>(calls, pre, steps),
                "once" => run_sched::<OnceP>(calls, pre, steps),
                "barrier" => run_sched::<BarrierP>(calls, pre, steps),
                _ => panic!("unknown primitive"),
            }
        }
        Some("random") => {
            // inject random <prim> <seed> <count> <maxdepth>
            let (prim, seed, count, maxdepth): (&str, u64, usize, usize) =
                (&args[2], args[3].parse().expect("seed"), args[4].parse().expect("count"), args[5].parse().expect("maxdepth"));
            match prim {
                "mutex" => run_random::<MutexP<3>>(seed, count, maxdepth),
                "mutex5" => run_random::<MutexP<5>>(seed, count, maxdepth),
                "sem" => run_random::<SemP>(seed, count, maxdepth),
                "rwlock" => run_random::<RwP>(seed, count, maxdepth),
                "once" => run_random::<OnceP>(seed, count, maxdepth),
                "barrier" => run_random::<BarrierP>(seed, count, maxdepth),
                _ => panic!("unknown primitive"),
            }
        }
        Some(prim) => {
            let depth: usize = args[2].parse().expect("depth");
            let inner: usize = args[3].parse().expect("inner");
            let post: usize = args.get(4).map(|s| s.parse().expect("post")).unwrap_or(0);
            match prim {
                "mutex" => run_all::<MutexP<3>>(depth, inner, post),
                "sem" => run_all::<SemP>(depth, inner, post),
                "rwlock" => run_all::<RwP>(depth, inner, post),
                "once" => run_all::<OnceP>(depth, inner, post),
                "barrier" => run_all::<BarrierP>(depth, inner, post),
                _ => panic!("unknown primitive"),
            }
        }
        None => panic!("usage: inject <prim> <depth> <inner> | inject replay <prim> <param> <key>"),
    }
}
