//! Prints rustc's own verdict on `X<K>: Send` / `X<K>: Sync` for every T-parametric public type X
//! of async-lock and the four kinds K of `T`, without failing to compile: an inherent method on
//! `Is<X>` (available when `X: Send`) shadows a blanket trait method (always available).
//!
//! Output: one line `auto <Type> <kind> <send 0|1> <sync 0|1>` per pair.

use async_lock::futures::*;
use async_lock::*;
use std::cell::Cell;
use std::marker::PhantomData;

struct Is<X: ?Sized>(PhantomData<X>);

trait Fallback {
    fn is_send(&self) -> bool {
        false
    }
    fn is_sync(&self) -> bool {
        false
    }
}
impl<X: ?Sized> Fallback for Is<X> {}
impl<X: ?Sized + Send> Is<X> {
    fn is_send(&self) -> bool {
        true
    }
}
struct IsS<X: ?Sized>(PhantomData<X>);
trait FallbackS {
    fn is_sync(&self) -> bool {
        false
    }
}
impl<X: ?Sized> FallbackS for IsS<X> {}
impl<X: ?Sized + Sync> IsS<X> {
    fn is_sync(&self) -> bool {
        true
    }
}

// the four kinds of T
#[allow(dead_code)]
struct SendSync(u8);
#[allow(dead_code)]
struct SendOnly(Cell<u8>);
#[allow(dead_code)]
struct SyncOnly(PhantomData<std::sync::MutexGuard<'static, u8>>);
#[allow(dead_code)]
struct Neither(PhantomData<*const u8>);

macro_rules! row {
    ($name:expr, $kind:expr, $ty:ty) => {
        println!(
            "auto {} {} {} {}",
            $name,
            $kind,
            Is::<$ty>(PhantomData).is_send() as u8,
            IsS::<$ty>(PhantomData).is_sync() as u8
        );
    };
}

macro_rules! rows {
    ($name:expr, $($t:tt)*) => {
        rows!(@one $name, "sendsync", SendSync, $($t)*);
        rows!(@one $name, "sendonly", SendOnly, $($t)*);
        rows!(@one $name, "synconly", SyncOnly, $($t)*);
        rows!(@one $name, "neither", Neither, $($t)*);
    };
    (@one $name:expr, $kind:expr, $k:ident, lt $x:ident) => { row!($name, $kind, $x<'static, $k>); };
    (@one $name:expr, $kind:expr, $k:ident, nolt $x:ident) => { row!($name, $kind, $x<$k>); };
}

fn main() {
    // sanity of the kinds themselves
    row!("KIND", "sendsync", SendSync);
    row!("KIND", "sendonly", SendOnly);
    row!("KIND", "synconly", SyncOnly);
    row!("KIND", "neither", Neither);

    rows!("Mutex", nolt Mutex);
    rows!("MutexGuard", lt MutexGuard);
    rows!("MutexGuardArc", nolt MutexGuardArc);
    rows!("Lock", lt Lock);
    rows!("LockArc", nolt LockArc);
    rows!("RwLock", nolt RwLock);
    rows!("RwLockReadGuard", lt RwLockReadGuard);
    rows!("RwLockReadGuardArc", nolt RwLockReadGuardArc);
    rows!("RwLockUpgradableReadGuard", lt RwLockUpgradableReadGuard);
    rows!("RwLockUpgradableReadGuardArc", nolt RwLockUpgradableReadGuardArc);
    rows!("RwLockWriteGuard", lt RwLockWriteGuard);
    rows!("RwLockWriteGuardArc", nolt RwLockWriteGuardArc);
    rows!("Read", lt Read);
    rows!("ReadArc", lt ReadArc);
    rows!("UpgradableRead", lt UpgradableRead);
    rows!("UpgradableReadArc", lt UpgradableReadArc);
    rows!("Write", lt Write);
    rows!("WriteArc", lt WriteArc);
    rows!("Upgrade", lt Upgrade);
    rows!("UpgradeArc", nolt UpgradeArc);
    rows!("OnceCell", nolt OnceCell);
}
