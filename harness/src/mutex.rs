//! World for `async_lock::Mutex`.

use crate::common::*;
use async_lock::futures::{Lock, LockArc};
use async_lock::{Mutex, MutexGuard, MutexGuardArc};
use std::collections::{BTreeMap, BTreeSet};
use std::future::Future;
use std::pin::Pin;
use std::sync::atomic::{AtomicUsize, Ordering};
use std::sync::Arc;
use std::task::{Context, Poll};

pub struct Payload {
    pub v: u64,
    pub dropped: Arc<AtomicUsize>,
}

impl Drop for Payload {
    fn drop(&mut self) {
        self.dropped.fetch_add(1, Ordering::SeqCst);
    }
}

enum F {
    B(Pin<Box<Lock<'static, Payload>>>),
    A(Pin<Box<LockArc<Payload>>>),
}

struct Fut {
    f: F,
    arc: bool,
    polled: bool,
    done: bool,
    last_waker: u32,
    /// op index at which the future was created
    started_at: usize,
    /// op index of the poll in which it executed `fetch_add(2)` (inferred from the state word)
    starved_at: Option<usize>,
}

enum G {
    B(MutexGuard<'static, Payload>),
    A(MutexGuardArc<Payload>),
}

pub struct MutexWorld {
    futs: BTreeMap<u32, Fut>,
    guards: BTreeMap<u32, G>,
    handles: Vec<Arc<Mutex<Payload>>>,
    raw: *const Mutex<Payload>,
    dropped: Arc<AtomicUsize>,
    opn: usize,
    /// a later arrival acquired while an earlier starved operation was still pending
    fifo_broken: bool,
}

pub fn make(line: &str) -> Option<Box<dyn World>> {
    let t: Vec<&str> = line.split_whitespace().collect();
    if t.len() == 2 && t[0] == "new" && t[1] == "mutex" {
        let dropped = Arc::new(AtomicUsize::new(0));
        let m = Arc::new(Mutex::new(Payload { v: 0, dropped: dropped.clone() }));
        let raw = Arc::as_ptr(&m);
        return Some(Box::new(MutexWorld {
            futs: BTreeMap::new(),
            guards: BTreeMap::new(),
            handles: vec![m],
            raw,
            dropped,
            opn: 0,
            fifo_broken: false,
        }));
    }
    None
}

impl MutexWorld {
    fn alive(&self) -> bool {
        self.dropped.load(Ordering::SeqCst) == 0
    }
    fn mref(&self) -> &'static Mutex<Payload> {
        // SAFETY: only called while some Arc (handle, owned guard or LockArc future) is alive.
        unsafe { &*self.raw }
    }
    fn fresh(&self, i: u32) -> bool {
        !self.futs.contains_key(&i) && !self.guards.contains_key(&i)
    }
    fn next_id(&self) -> u32 {
        (0..).find(|i| self.fresh(*i)).unwrap()
    }
    fn borrowed_alive(&self) -> bool {
        self.futs.values().any(|f| !f.arc) || self.guards.values().any(|g| matches!(g, G::B(_)))
    }
    fn strong(&self) -> usize {
        if !self.alive() {
            return 0;
        }
        // SAFETY: the allocation is alive (payload not dropped), so some Arc owns it.
        unsafe {
            let tmp = std::mem::ManuallyDrop::new(Arc::from_raw(self.raw));
            Arc::strong_count(&tmp)
        }
    }
}

impl World for MutexWorld {
    fn exec(&mut self, op: &str) -> String {
        let t: Vec<&str> = op.split_whitespace().collect();
        let num = |i: usize| -> Option<u32> { t.get(i).and_then(|x| x.parse().ok()) };
        self.opn += 1;
        let opn = self.opn;
        match t.first().copied() {
            Some("start") => {
                let (Some(f), Some(arc)) = (num(1), num(2)) else { return "bad-op".into() };
                if !self.fresh(f) || self.handles.is_empty() {
                    return "bad-op".into();
                }
                let fut = if arc == 1 {
                    F::A(Box::pin(self.handles[0].lock_arc()))
                } else {
                    F::B(Box::pin(self.mref().lock()))
                };
                self.futs.insert(
                    f,
                    Fut {
                        f: fut,
                        arc: arc == 1,
                        polled: false,
                        done: false,
                        last_waker: f * 4,
                        started_at: opn,
                        starved_at: None,
                    },
                );
                "ok".into()
            }
            Some("poll") => {
                let (Some(f), Some(w), Some(fire)) = (num(1), num(2), num(3)) else {
                    return "bad-op".into();
                };
                let before = self.mref().__verif_snapshot().words[0];
                let Some(fu) = self.futs.get_mut(&f) else { return "bad-op".into() };
                if fu.done {
                    return "bad-op".into();
                }
                let wk = waker(w);
                let mut cx = Context::from_waker(&wk);
                fu.polled = true;
                fu.last_waker = w;
                async_lock::__verif::set_starvation_oracle(Some(Box::new(move || fire == 1)));
                let res = match &mut fu.f {
                    F::B(p) => p.as_mut().poll(&mut cx).map(G::B),
                    F::A(p) => p.as_mut().poll(&mut cx).map(G::A),
                };
                async_lock::__verif::set_starvation_oracle(None);
                let after = unsafe { &*self.raw }.__verif_snapshot().words[0];
                if (after >> 1) > (before >> 1) && fu.starved_at.is_none() {
                    fu.starved_at = Some(opn);
                }
                match res {
                    Poll::Ready(g) => {
                        fu.done = true;
                        let mine = fu.started_at;
                        self.guards.insert(f, g);
                        // C13 (FIFO): no operation started after another one became starved may
                        // acquire while that one is still pending
                        if self.futs.values().any(|o| {
                            !o.done && o.starved_at.map_or(false, |t0| mine > t0)
                        }) {
                            self.fifo_broken = true;
                        }
                        "ready".into()
                    }
                    Poll::Pending => "pending".into(),
                }
            }
            Some("dropf") => {
                let Some(f) = num(1) else { return "bad-op".into() };
                match self.futs.remove(&f) {
                    Some(fu) => {
                        drop(fu);
                        "ok".into()
                    }
                    None => "bad-op".into(),
                }
            }
            Some("try") => {
                let (Some(g), Some(arc)) = (num(1), num(2)) else { return "bad-op".into() };
                if !self.fresh(g) || self.handles.is_empty() {
                    return "bad-op".into();
                }
                let r = if arc == 1 {
                    self.handles[0].try_lock_arc().map(G::A)
                } else {
                    self.mref().try_lock().map(G::B)
                };
                match r {
                    Some(gu) => {
                        self.guards.insert(g, gu);
                        "some".into()
                    }
                    None => "none".into(),
                }
            }
            Some("dropg") => {
                let Some(g) = num(1) else { return "bad-op".into() };
                match self.guards.remove(&g) {
                    Some(gu) => {
                        drop(gu);
                        "ok".into()
                    }
                    None => "bad-op".into(),
                }
            }
            Some("hclone") => {
                if self.handles.is_empty() {
                    return "bad-op".into();
                }
                self.handles.push(self.handles[0].clone());
                "ok".into()
            }
            Some("hdrop") => {
                if self.handles.is_empty() || (self.handles.len() == 1 && self.borrowed_alive()) {
                    return "bad-op".into();
                }
                drop(self.handles.pop());
                "ok".into()
            }
            _ => "bad-op".into(),
        }
    }

    fn snapshot(&self) -> String {
        if !self.alive() {
            return format!("words=- ev=- strong=0 dropped={}", self.dropped.load(Ordering::SeqCst));
        }
        format!(
            "{} strong={} dropped=0",
            fmt_snapshot(&self.mref().__verif_snapshot()),
            self.strong()
        )
    }

    fn candidates(&self, exhaustive: bool) -> Vec<String> {
        let mut v = Vec::new();
        let id = self.next_id();
        let have_handle = !self.handles.is_empty();
        if self.futs.len() < 4 && have_handle {
            v.push(format!("start {} 0", id));
            v.push(format!("start {} 1", id));
        }
        for (f, fu) in &self.futs {
            if !fu.done {
                v.push(format!("poll {} {} 0", f, f * 4));
                if fu.polled {
                    v.push(format!("poll {} {} 1", f, f * 4));
                    if !exhaustive || fu.last_waker == f * 4 {
                        v.push(format!("poll {} {} 0", f, f * 4 + 1));
                    }
                }
            }
            v.push(format!("dropf {}", f));
        }
        if have_handle {
            v.push(format!("try {} 0", id));
            if !exhaustive || self.guards.is_empty() {
                v.push(format!("try {} 1", id));
            }
        }
        for (g, _) in &self.guards {
            v.push(format!("dropg {}", g));
        }
        if !exhaustive {
            if have_handle && self.handles.len() < 3 {
                v.push("hclone".into());
            }
            if self.handles.len() > 1 || (self.handles.len() == 1 && !self.borrowed_alive()) {
                v.push("hdrop".into());
            }
        }
        v
    }

    fn key(&self) -> String {
        let f: Vec<String> = self
            .futs
            .iter()
            .map(|(i, f)| format!("{}{}{}{}{}", i, f.arc as u8, f.polled as u8, f.done as u8, f.last_waker))
            .collect();
        let g: Vec<String> = self
            .guards
            .iter()
            .map(|(i, g)| format!("{}{}", i, matches!(g, G::A(_)) as u8))
            .collect();
        format!("{}|{}|{}|{}", f.join(","), g.join(","), self.snapshot(), self.handles.len())
    }

    fn monitors(&self, woken: &BTreeSet<u32>) -> Vec<String> {
        let mut m = Vec::new();
        if !self.alive() {
            // C15: dropped exactly once, only when nothing owns it
            let owners = self.handles.len()
                + self.guards.values().filter(|g| matches!(g, G::A(_))).count()
                + self.futs.values().filter(|f| f.arc && !f.done).count();
            if owners != 0 || self.dropped.load(Ordering::SeqCst) != 1 {
                m.push("C15".to_string());
            }
            return m;
        }
        let snap = self.mref().__verif_snapshot();
        let st = snap.words[0];
        // C01: at most one guard; the lock bit agrees with the guards
        if self.guards.len() > 1 || (st & 1) != self.guards.len() {
            m.push("C01".to_string());
        }
        let pending = self.futs.values().filter(|f| f.polled && !f.done).count();
        // C05: unlocked, everybody woken was re-polled, yet a polled lock future pends
        if woken.is_empty() && st & 1 == 0 && pending > 0 {
            m.push("C05".to_string());
        }
        // C10: no stale listeners; nothing left behind once everything is gone
        if snap.events[0].0 > pending {
            m.push("C10".to_string());
        }
        if self.futs.values().all(|f| f.done || !f.polled) && self.guards.is_empty() && st != 0 {
            m.push("C10".to_string());
        }
        // C14: nothing alive that could conflict => try_lock succeeds (idle probe; restores state)
        if self.guards.is_empty() && pending == 0 && snap.events[0].0 == 0 && st == 0 {
            match self.mref().try_lock() {
                Some(g) => drop(g),
                None => m.push("C14".to_string()),
            }
        } else if self.guards.is_empty() && pending == 0 && st != 0 {
            // no guard, nothing pending, yet the word is not zero: try_lock cannot succeed
            m.push("C14".to_string());
        }
        // C13: while the starved counter is non-zero, try_lock fails (a failed CAS changes nothing)
        if st >> 1 != 0 {
            if let Some(g) = self.mref().try_lock() {
                drop(g);
                m.push("C13".to_string());
            }
        }
        if self.fifo_broken {
            m.push("C13".to_string());
        }
        // C15: strong = handles + owned guards + uncompleted lock_arc futures
        let arc_f = self.futs.values().filter(|f| f.arc && !f.done).count();
        let arc_g = self.guards.values().filter(|g| matches!(g, G::A(_))).count();
        if self.strong() != self.handles.len() + arc_f + arc_g {
            m.push("C15".to_string());
        }
        m
    }

    fn word_addrs(&self) -> Vec<usize> {
        if self.alive() { self.mref().__verif_snapshot().addrs } else { Vec::new() }
    }

    fn pending(&self) -> usize {
        self.futs.values().filter(|x| x.polled && !x.done).count()
    }

    fn score(&self) -> usize {
        self.guards.len()
    }

    fn repoll_op(&self, f: u32) -> Option<String> {
        self.futs.get(&f).filter(|x| !x.done).map(|x| format!("poll {} {} 0", f, x.last_waker))
    }
}

impl Drop for MutexWorld {
    fn drop(&mut self) {
        // borrowed futures and guards must go before the last handle
        self.futs.clear();
        self.guards.clear();
        self.handles.clear();
    }
}
