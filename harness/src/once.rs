//! World for `async_lock::OnceCell`. Initialiser futures are scripted by the op line.

use crate::common::*;
use async_lock::OnceCell;
use std::cell::Cell;
use std::collections::{BTreeMap, BTreeSet};
use std::future::Future;
use std::panic::{catch_unwind, AssertUnwindSafe};
use std::pin::Pin;
use std::rc::Rc;
use std::sync::{Arc, Mutex};
use std::task::{Context, Poll};

/// The stored value: records its id when dropped.
pub struct V {
    id: u32,
    /// unique per instance (caller ids are reused after a future is dropped)
    serial: u32,
    drops: Arc<Mutex<Vec<u32>>>,
}

static SERIAL: std::sync::atomic::AtomicU32 = std::sync::atomic::AtomicU32::new(0);

impl V {
    fn new(id: u32, drops: Arc<Mutex<Vec<u32>>>) -> V {
        V { id, serial: SERIAL.fetch_add(1, std::sync::atomic::Ordering::SeqCst), drops }
    }
}

impl Drop for V {
    fn drop(&mut self) {
        self.drops.lock().unwrap().push(self.serial);
    }
}

#[derive(Clone, Copy, PartialEq, Eq, Debug)]
enum Input {
    Pend,
    Ok,
    Err,
    Panic,
    /// the closure itself panics when called
    CPanic,
}

#[derive(Clone, Copy, PartialEq, Eq, Debug)]
enum K {
    Wait,
    Init,
    TryInit,
    Set,
}

/// What a caller future resolves to, normalised.
enum Res {
    Val(u32),
    Err,
    SetBack(u32, V),
}

type Fu = Pin<Box<dyn Future<Output = Res>>>;

struct Scripted {
    slot: Rc<Cell<Input>>,
    id: u32,
    drops: Arc<Mutex<Vec<u32>>>,
}

impl Future for Scripted {
    type Output = Result<V, ()>;
    fn poll(self: Pin<&mut Self>, _cx: &mut Context<'_>) -> Poll<Self::Output> {
        match self.slot.get() {
            Input::Pend | Input::CPanic => Poll::Pending,
            Input::Ok => Poll::Ready(Ok(V::new(self.id, self.drops.clone()))),
            Input::Err => Poll::Ready(Err(())),
            Input::Panic => panic!("scripted initialiser panic"),
        }
    }
}

struct Fut {
    f: Option<Fu>,
    kind: K,
    slot: Rc<Cell<Input>>,
    polled: bool,
    done: bool,
    running: bool,
    last_waker: u32,
}

pub struct OnceWorld {
    futs: BTreeMap<u32, Fut>,
    cell: Option<Box<OnceCell<V>>>,
    drops: Arc<Mutex<Vec<u32>>>,
    /// a caller reported a value that is not the stored one / an error that was not its own
    bad_report: bool,
    /// atomic-operation log of the last poll proper
    op_atoms: Option<Vec<async_lock::__verif::AtomicOp>>,
}

pub fn make(line: &str) -> Option<Box<dyn World>> {
    let t: Vec<&str> = line.split_whitespace().collect();
    if t.len() == 2 && t[0] == "new" && t[1] == "once" {
        std::panic::set_hook(Box::new(|_| {}));
        return Some(Box::new(OnceWorld {
            futs: BTreeMap::new(),
            cell: Some(Box::new(OnceCell::new())),
            drops: Arc::new(Mutex::new(Vec::new())),
            bad_report: false,
            op_atoms: None,
        }));
    }
    None
}

impl OnceWorld {
    fn cref(&self) -> Option<&'static OnceCell<V>> {
        // SAFETY: futures are dropped before the cell (see `exec` and `Drop`).
        self.cell.as_ref().map(|c| unsafe { &*(&**c as *const OnceCell<V>) })
    }
    fn stored(&self) -> Option<u32> {
        self.cref().and_then(|c| c.get().map(|v| v.id))
    }
}

impl World for OnceWorld {
    fn exec(&mut self, op: &str) -> String {
        let t: Vec<&str> = op.split_whitespace().collect();
        let num = |i: usize| -> Option<u32> { t.get(i).and_then(|x| x.parse().ok()) };
        match t.first().copied() {
            Some("start") => {
                let (Some(f), Some(k)) = (num(1), t.get(2).copied()) else { return "bad-op".into() };
                let Some(cell) = self.cref() else { return "bad-op".into() };
                if self.futs.contains_key(&f) {
                    return "bad-op".into();
                }
                let slot = Rc::new(Cell::new(Input::Pend));
                let drops = self.drops.clone();
                let (kind, fut): (K, Fu) = match k {
                    "wait" => (K::Wait, Box::pin(async move { Res::Val(cell.wait().await.id) })),
                    "init" => {
                        let s2 = slot.clone();
                        (
                            K::Init,
                            Box::pin(async move {
                                let v = cell
                                    .get_or_init(|| {
                                        if s2.get() == Input::CPanic {
                                            panic!("scripted closure panic");
                                        }
                                        async move {
                                        match (Scripted { slot: s2, id: f, drops }).await {
                                            Ok(v) => v,
                                            Err(()) => unreachable!("infallible initialiser scripted to fail"),
                                        }
                                        }
                                    })
                                    .await;
                                Res::Val(v.id)
                            }),
                        )
                    }
                    "tryinit" => {
                        let s2 = slot.clone();
                        (
                            K::TryInit,
                            Box::pin(async move {
                                match cell
                                    .get_or_try_init(|| {
                                        if s2.get() == Input::CPanic {
                                            panic!("scripted closure panic");
                                        }
                                        Scripted { slot: s2, id: f, drops }
                                    })
                                    .await
                                {
                                    Ok(v) => Res::Val(v.id),
                                    Err(()) => Res::Err,
                                }
                            }),
                        )
                    }
                    "set" => {
                        let value = V::new(f, drops);
                        (
                            K::Set,
                            Box::pin(async move {
                                match cell.set(value).await {
                                    Ok(v) => Res::Val(v.id),
                                    Err(back) => Res::SetBack(cell.get().map(|v| v.id).unwrap_or(u32::MAX), back),
                                }
                            }),
                        )
                    }
                    _ => return "bad-op".into(),
                };
                self.futs.insert(
                    f,
                    Fut { f: Some(fut), kind, slot, polled: false, done: false, running: false, last_waker: f * 4 },
                );
                "ok".into()
            }
            Some("poll") => {
                let (Some(f), Some(w), Some(inp)) = (num(1), num(2), t.get(3).copied()) else {
                    return "bad-op".into();
                };
                let input = match inp {
                    "pend" => Input::Pend,
                    "ok" => Input::Ok,
                    "err" => Input::Err,
                    "panic" => Input::Panic,
                    "cpanic" => Input::CPanic,
                    _ => return "bad-op".into(),
                };
                let stored_before = self.stored();
                let Some(fu) = self.futs.get_mut(&f) else { return "bad-op".into() };
                if fu.done {
                    return "bad-op".into();
                }
                // an infallible initialiser cannot fail
                let input = if input == Input::Err && fu.kind != K::TryInit { Input::Pend } else { input };
                fu.slot.set(input);
                fu.polled = true;
                fu.last_waker = w;
                let wk = waker(w);
                let mut cx = Context::from_waker(&wk);
                let fut = fu.f.as_mut().unwrap();
                // only the poll itself goes into the atomic-operation log of this op
                let _ = async_lock::__verif::take_atomic_log();
                let r = catch_unwind(AssertUnwindSafe(|| fut.as_mut().poll(&mut cx)));
                self.op_atoms.get_or_insert_with(Vec::new).extend(async_lock::__verif::take_atomic_log());
                match r {
                    Err(_) => {
                        fu.done = true;
                        fu.f = None; // the panicked future is dropped
                        if input != Input::Panic && input != Input::CPanic {
                            self.bad_report = true; // a panic that this caller's closure did not cause
                        }
                        "panic".into()
                    }
                    Ok(Poll::Pending) => "pending".into(),
                    Ok(Poll::Ready(res)) => {
                        fu.done = true;
                        let stored = self.cell.as_ref().and_then(|c| c.get().map(|v| v.id));
                        match res {
                            Res::Val(v) => {
                                if Some(v) != stored {
                                    self.bad_report = true;
                                }
                                format!("ready {}", v)
                            }
                            Res::Err => {
                                if input != Input::Err {
                                    self.bad_report = true; // somebody else's error
                                }
                                let _ = stored_before;
                                "readyerr".into()
                            }
                            Res::SetBack(v, back) => {
                                if Some(v) != stored || back.id != f {
                                    self.bad_report = true;
                                }
                                drop(back);
                                format!("setback {}", v)
                            }
                        }
                    }
                }
            }
            Some("blk") => {
                // a blocking call in a state in which it does not park
                let (Some(f), Some(k), Some(inp)) = (num(1), t.get(2).copied(), t.get(3).copied()) else {
                    return "bad-op".into();
                };
                let Some(cell) = self.cref() else { return "bad-op".into() };
                let st = cell.__verif_snapshot().words[0];
                if st == 1 || self.futs.contains_key(&f) || (k == "wait" && st != 2) {
                    return "bad-op".into();
                }
                let drops = self.drops.clone();
                let r = catch_unwind(AssertUnwindSafe(|| -> String {
                    match k {
                        "wait" => format!("ready {}", cell.wait_blocking().id),
                        "init" => {
                            let v = cell.get_or_init_blocking(|| match inp {
                                "ok" => V::new(f, drops.clone()),
                                _ => panic!("scripted closure panic"),
                            });
                            format!("ready {}", v.id)
                        }
                        "tryinit" => {
                            match cell.get_or_try_init_blocking(|| match inp {
                                "ok" => Ok(V::new(f, drops.clone())),
                                "err" => Err(()),
                                _ => panic!("scripted closure panic"),
                            }) {
                                Ok(v) => format!("ready {}", v.id),
                                Err(()) => "readyerr".into(),
                            }
                        }
                        "set" => match cell.set_blocking(V::new(f, drops.clone())) {
                            Ok(v) => format!("ready {}", v.id),
                            Err(back) => {
                                let r = format!("setback {}", cell.get().map(|v| v.id).unwrap_or(u32::MAX));
                                drop(back);
                                r
                            }
                        },
                        _ => "bad-op".into(),
                    }
                }));
                match r {
                    Ok(s) => s,
                    Err(_) => "panic".into(),
                }
            }
            Some("dropf") => {
                let Some(f) = num(1) else { return "bad-op".into() };
                match self.futs.remove(&f) {
                    Some(fu) => {
                        drop(fu);
                        "ok".into()
                    }
                    None => "bad-op".into(),
                }
            }
            Some("get") => match self.cref() {
                None => "bad-op".into(),
                Some(c) => match c.get() {
                    Some(v) => format!("some {}", v.id),
                    None => "none".into(),
                },
            },
            Some("take") => {
                if !self.futs.is_empty() {
                    return "bad-op".into();
                }
                match self.cell.as_mut() {
                    None => "bad-op".into(),
                    Some(c) => match c.take() {
                        Some(v) => {
                            let id = v.id;
                            drop(v);
                            format!("some {}", id)
                        }
                        None => "none".into(),
                    },
                }
            }
            Some("dropcell") => {
                if !self.futs.is_empty() || self.cell.is_none() {
                    return "bad-op".into();
                }
                self.cell = None;
                "ok".into()
            }
            _ => "bad-op".into(),
        }
    }

    fn snapshot(&self) -> String {
        let drops = self.drops.lock().unwrap().len();
        match self.cref() {
            None => format!("words=- ev=- val=- drops={}", drops),
            Some(c) => format!(
                "{} val={} drops={}",
                fmt_snapshot(&c.__verif_snapshot()),
                c.get().map(|v| v.id.to_string()).unwrap_or_else(|| "-".into()),
                drops
            ),
        }
    }

    fn candidates(&self, exhaustive: bool) -> Vec<String> {
        let mut v = Vec::new();
        if self.cell.is_none() {
            return v;
        }
        let id = (0..).find(|i| !self.futs.contains_key(i)).unwrap();
        let max_f = if exhaustive { 3 } else { 4 };
        if self.futs.len() < max_f {
            for k in ["wait", "init", "tryinit", "set"] {
                v.push(format!("start {} {}", id, k));
            }
        }
        for (f, fu) in &self.futs {
            if !fu.done {
                match fu.kind {
                    K::Wait | K::Set => v.push(format!("poll {} {} pend", f, f * 4)),
                    K::Init => {
                        for i in ["pend", "ok", "panic", "cpanic"] {
                            v.push(format!("poll {} {} {}", f, f * 4, i));
                        }
                    }
                    K::TryInit => {
                        for i in ["pend", "ok", "err", "panic", "cpanic"] {
                            v.push(format!("poll {} {} {}", f, f * 4, i));
                        }
                    }
                }
                if !exhaustive && fu.polled {
                    v.push(format!("poll {} {} pend", f, f * 4 + 1));
                }
            }
            v.push(format!("dropf {}", f));
        }
        v.push("get".into());
        if let Some(c) = self.cref() {
            let st = c.__verif_snapshot().words[0];
            if st != 1 && self.futs.len() < max_f {
                v.push(format!("blk {} init ok", id));
                v.push(format!("blk {} init panic", id));
                v.push(format!("blk {} tryinit err", id));
                v.push(format!("blk {} set ok", id));
                if !exhaustive {
                    v.push(format!("blk {} tryinit ok", id));
                    v.push(format!("blk {} tryinit panic", id));
                }
                if st == 2 {
                    v.push(format!("blk {} wait ok", id));
                }
            }
        }
        if self.futs.is_empty() {
            v.push("take".into());
            if !exhaustive {
                v.push("dropcell".into());
            }
        }
        v
    }

    fn key(&self) -> String {
        let f: Vec<String> = self
            .futs
            .iter()
            .map(|(i, f)| format!("{}{:?}{}{}{}", i, f.kind, f.polled as u8, f.done as u8, f.last_waker))
            .collect();
        format!("{}|{}", f.join(","), self.snapshot())
    }

    fn monitors(&self, woken: &BTreeSet<u32>) -> Vec<String> {
        let mut m = Vec::new();
        let drops = self.drops.lock().unwrap().clone();
        // C04: no value is dropped twice; the stored value is not dropped while it is visible
        let mut seen = BTreeSet::new();
        for d in &drops {
            if !seen.insert(*d) {
                m.push("C04".to_string());
            }
        }
        if self.bad_report {
            m.push("C04".to_string());
            m.push("C08".to_string());
        }
        let Some(c) = self.cref() else { return m };
        if let Some(v) = c.get() {
            if seen.contains(&v.serial) {
                m.push("C04".to_string());
            }
        }
        let snap = c.__verif_snapshot();
        let st = snap.words[0];
        if (st == 2) != c.get().is_some() {
            m.push("C04".to_string());
        }
        let pending: Vec<&Fut> = self.futs.values().filter(|f| f.polled && !f.done).collect();
        if woken.is_empty() {
            // C08: once initialised, nobody who has been polled is still pending
            if st == 2 && !pending.is_empty() {
                m.push("C08".to_string());
            }
            // C08: never stuck initialising: state 1 needs a live caller (all pending, one of them runs)
            if st == 1 && pending.is_empty() {
                m.push("C08".to_string());
            }
            // C08: empty again and init-style callers are waiting => impossible at quiescence
            if st == 0 && pending.iter().any(|f| f.kind != K::Wait) {
                m.push("C08".to_string());
            }
        }
        // C10-style: no stale listeners
        let listeners: usize = snap.events.iter().map(|e| e.0).sum();
        if listeners > pending.len() {
            m.push("C08".to_string());
        }
        let _ = self.futs.values().map(|f| f.running).count();
        m
    }

    fn take_op_atoms(&mut self) -> Option<Vec<async_lock::__verif::AtomicOp>> {
        self.op_atoms.take()
    }

    fn word_addrs(&self) -> Vec<usize> {
        self.cell.as_ref().map(|c| c.__verif_snapshot().addrs).unwrap_or_default()
    }

    fn pending(&self) -> usize {
        self.futs.values().filter(|x| x.polled && !x.done).count()
    }

    fn repoll_op(&self, f: u32) -> Option<String> {
        self.futs.get(&f).filter(|x| !x.done).map(|x| format!("poll {} {} pend", f, x.last_waker))
    }
}

impl Drop for OnceWorld {
    fn drop(&mut self) {
        self.futs.clear();
        self.cell = None;
    }
}
