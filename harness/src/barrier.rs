//! World for `async_lock::Barrier`.

use crate::common::*;
use async_lock::futures::BarrierWait;
use async_lock::Barrier;
use std::collections::{BTreeMap, BTreeSet};
use std::future::Future;
use std::pin::Pin;
use std::task::{Context, Poll};

struct Fut {
    f: Pin<Box<BarrierWait<'static>>>,
    polled: bool,
    done: bool,
    last_waker: u32,
    /// generation (as read from the hook) in which this wait arrived
    arrived_gen: Option<usize>,
}

pub struct BarrierWorld {
    futs: BTreeMap<u32, Fut>,
    barrier: Box<Barrier>,
    n: usize,
    arrivals: BTreeMap<usize, usize>,
    leaders: BTreeMap<usize, usize>,
    bad: bool,
}

pub fn make(line: &str) -> Option<Box<dyn World>> {
    let t: Vec<&str> = line.split_whitespace().collect();
    if t.len() == 3 && t[0] == "new" && t[1] == "barrier" {
        let n: usize = t[2].parse().ok()?;
        return Some(Box::new(BarrierWorld {
            futs: BTreeMap::new(),
            barrier: Box::new(Barrier::new(n)),
            n,
            arrivals: BTreeMap::new(),
            leaders: BTreeMap::new(),
            bad: false,
        }));
    }
    None
}

impl BarrierWorld {
    fn bref(&self) -> &'static Barrier {
        // SAFETY: futures are dropped before the barrier (see `Drop`).
        unsafe { &*(&*self.barrier as *const Barrier) }
    }
}

impl World for BarrierWorld {
    fn exec(&mut self, op: &str) -> String {
        let t: Vec<&str> = op.split_whitespace().collect();
        let num = |i: usize| -> Option<u32> { t.get(i).and_then(|x| x.parse().ok()) };
        match t.first().copied() {
            Some("start") => {
                let Some(f) = num(1) else { return "bad-op".into() };
                if self.futs.contains_key(&f) {
                    return "bad-op".into();
                }
                let fut = Box::pin(self.bref().wait());
                self.futs.insert(
                    f,
                    Fut { f: fut, polled: false, done: false, last_waker: f * 4, arrived_gen: None },
                );
                "ok".into()
            }
            Some("poll") => {
                let (Some(f), Some(w)) = (num(1), num(2)) else { return "bad-op".into() };
                let before = self.barrier.__verif_snapshot();
                let gen_before = before.words[2];
                let n = self.n;
                let Some(fu) = self.futs.get_mut(&f) else { return "bad-op".into() };
                if fu.done {
                    return "bad-op".into();
                }
                let first = !fu.polled;
                fu.polled = true;
                fu.last_waker = w;
                if first {
                    // this poll is the arrival
                    fu.arrived_gen = Some(gen_before);
                    *self.arrivals.entry(gen_before).or_insert(0) += 1;
                }
                let wk = waker(w);
                let mut cx = Context::from_waker(&wk);
                match fu.f.as_mut().poll(&mut cx) {
                    Poll::Ready(r) => {
                        fu.done = true;
                        let g = fu.arrived_gen.unwrap();
                        // C09: no wait returns before n waits of its generation have arrived
                        if n > 0 && self.arrivals.get(&g).copied().unwrap_or(0) < n {
                            self.bad = true;
                        }
                        if r.is_leader() {
                            *self.leaders.entry(g).or_insert(0) += 1;
                            // the leader is the last to arrive: it completes in its arrival poll
                            if !first || self.leaders[&g] > 1 {
                                self.bad = true;
                            }
                            "ready leader".into()
                        } else {
                            "ready follower".into()
                        }
                    }
                    Poll::Pending => "pending".into(),
                }
            }
            Some("dropf") => {
                let Some(f) = num(1) else { return "bad-op".into() };
                match self.futs.remove(&f) {
                    Some(fu) => {
                        drop(fu);
                        "ok".into()
                    }
                    None => "bad-op".into(),
                }
            }
            _ => "bad-op".into(),
        }
    }

    fn snapshot(&self) -> String {
        fmt_snapshot(&self.barrier.__verif_snapshot())
    }

    fn candidates(&self, exhaustive: bool) -> Vec<String> {
        let mut v = Vec::new();
        let id = (0..).find(|i| !self.futs.contains_key(i)).unwrap();
        let max_f = if exhaustive { 2 * self.n.max(1) + 1 } else { 2 * self.n.max(1) + 2 };
        if self.futs.len() < max_f {
            v.push(format!("start {}", id));
        }
        for (f, fu) in &self.futs {
            if !fu.done {
                v.push(format!("poll {} {}", f, f * 4));
                if !exhaustive && fu.polled {
                    v.push(format!("poll {} {}", f, f * 4 + 1));
                }
            }
            v.push(format!("dropf {}", f));
        }
        v
    }

    fn key(&self) -> String {
        let f: Vec<String> = self
            .futs
            .iter()
            .map(|(i, f)| format!("{}{}{}{}{:?}", i, f.polled as u8, f.done as u8, f.last_waker, f.arrived_gen))
            .collect();
        format!("{}|{}", f.join(","), self.snapshot())
    }

    fn monitors(&self, woken: &BTreeSet<u32>) -> Vec<String> {
        let mut m = Vec::new();
        if self.bad {
            m.push("C09".to_string());
        }
        let snap = self.barrier.__verif_snapshot();
        let gen = snap.words[2];
        // C09: exactly one leader per completed generation (none for the current one)
        for g in 0..gen {
            if self.leaders.get(&g).copied().unwrap_or(0) != 1 {
                m.push("C09".to_string());
            }
        }
        if self.leaders.get(&gen).copied().unwrap_or(0) != 0 {
            m.push("C09".to_string());
        }
        // C09: the n-th arrival completes its generation: the current one never holds n arrivals
        if self.arrivals.get(&gen).copied().unwrap_or(0) >= self.n.max(1) {
            m.push("C09".to_string());
        }
        // C09: once a generation is complete and everybody woken has been re-polled, every live
        // wait of that generation has completed
        if woken.is_empty()
            && self.futs.values().any(|f| f.polled && !f.done && f.arrived_gen.map_or(false, |g| g < gen))
        {
            m.push("C09".to_string());
        }
        // the inner mutex is free between operations, no stale listeners
        let pending = self.futs.values().filter(|f| f.polled && !f.done).count();
        if snap.words[0] != 0 || snap.events[0].0 != 0 || snap.events[1].0 > pending {
            m.push("C09".to_string());
        }
        m
    }

    fn word_addrs(&self) -> Vec<usize> {
        self.barrier.__verif_snapshot().addrs
    }

    fn pending(&self) -> usize {
        self.futs.values().filter(|x| x.polled && !x.done).count()
    }

    fn repoll_op(&self, f: u32) -> Option<String> {
        self.futs.get(&f).filter(|x| !x.done).map(|x| format!("poll {} {}", f, x.last_waker))
    }
}

impl Drop for BarrierWorld {
    fn drop(&mut self) {
        self.futs.clear();
    }
}
