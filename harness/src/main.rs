//! `drive`: differential harness for async-lock.
//!
//!   drive dfs <depth> <new line...>          exhaustive histories (trie-structured output)
//!   drive random <prim> <seed> <count> <len> seeded random histories
//!   drive replay                             op lines on stdin
//!
//! Every output line is `<op> || <outcome> | w=<wakers called> | <snapshot>[ M!<monitors>]`.
//! A summary JSON is written to stderr as the last line.

mod barrier;
mod common;
mod mutex;
mod once;
mod rwlock;
mod sem;

use common::*;
use std::io::{Read, Write};

fn maker(prim: &str) -> Option<Maker> {
    match prim {
        "sem" => Some(sem::make),
        "mutex" => Some(mutex::make),
        "rwlock" => Some(rwlock::make),
        "once" => Some(once::make),
        "barrier" => Some(barrier::make),
        _ => None,
    }
}

fn new_lines(prim: &str) -> Vec<String> {
    match prim {
        "sem" => [0, 1, 1, 2, 3].iter().map(|n| format!("new sem {}", n)).collect(),
        "mutex" => vec!["new mutex".to_string()],
        "rwlock" => vec!["new rwlock".to_string()],
        "once" => vec!["new once".to_string()],
        "barrier" => (0..4).map(|n| format!("new barrier {}", n)).collect(),
        _ => vec![],
    }
}

fn main() {
    let args: Vec<String> = std::env::args().collect();
    let stdout = std::io::stdout();
    // HARNESS_FLUSH=1: line-buffered output, so that the history leading to a crash is not lost
    let cap = if std::env::var("HARNESS_FLUSH").is_ok() { 1 } else { 1 << 20 };
    let mut out = std::io::BufWriter::with_capacity(cap, stdout.lock());
    let mut stats = Stats::new();
    match args.get(1).map(|s| s.as_str()) {
        Some("dfs") => {
            let depth: usize = args[2].parse().expect("depth");
            let new_line = args[3..].join(" ");
            let prim = args[4].clone();
            let mk = maker(&prim).expect("unknown primitive");
            dfs(&new_line, mk, depth, &[], &mut out, &mut stats);
        }
        Some("beam") => {
            // beam <depth0> <width> <rounds> <depth_r> new ...
            let depth0: usize = args[2].parse().expect("depth0");
            let width: usize = args[3].parse().expect("width");
            let rounds: usize = args[4].parse().expect("rounds");
            let depth_r: usize = args[5].parse().expect("depth_r");
            let new_line = args[6..].join(" ");
            let prim = args[7].clone();
            let mk = maker(&prim).expect("unknown primitive");
            beam(&new_line, mk, depth0, width, rounds, depth_r, &mut out, &mut stats);
        }
        Some("dfsfrom") => {
            // drive dfsfrom <depth>   with `new ...` and the prefix ops on stdin
            let depth: usize = args[2].parse().expect("depth");
            let mut input = String::new();
            std::io::stdin().read_to_string(&mut input).unwrap();
            let mut lines = input.lines().map(|l| l.trim().to_string()).filter(|l| !l.is_empty());
            let new_line = lines.next().expect("new line");
            let prim = new_line.split_whitespace().nth(1).unwrap_or("").to_string();
            let mk = maker(&prim).expect("unknown primitive");
            let prefix: Vec<String> = lines.collect();
            dfs(&new_line, mk, depth, &prefix, &mut out, &mut stats);
        }
        Some("randomfrom") => {
            // drive randomfrom <seed> <count> <len>   with `new ...` and the prefix ops on stdin
            let seed: u64 = args[2].parse().expect("seed");
            let count: usize = args[3].parse().expect("count");
            let len: usize = args[4].parse().expect("len");
            let mut input = String::new();
            std::io::stdin().read_to_string(&mut input).unwrap();
            let mut lines = input.lines().map(|l| l.trim().to_string()).filter(|l| !l.is_empty());
            let new_line = lines.next().expect("new line");
            let prim = new_line.split_whitespace().nth(1).unwrap_or("").to_string();
            let mk = maker(&prim).expect("unknown primitive");
            let prefix: Vec<String> = lines.collect();
            let mut rng = Rng(seed ^ 0x5151_1515_9999_0001);
            random_from(&new_line, mk, &prefix, count, len, &mut rng, &mut out, &mut stats);
        }
        Some("random") => {
            let prim = args[2].clone();
            let seed: u64 = args[3].parse().expect("seed");
            let count: usize = args[4].parse().expect("count");
            let len: usize = args[5].parse().expect("len");
            let mk = maker(&prim).expect("unknown primitive");
            let mut rng = Rng(seed ^ 0xA5A5_5A5A_1234_5678);
            random(&new_lines(&prim), mk, count, len, &mut rng, &mut out, &mut stats);
        }
        Some("replay") => {
            let mut input = String::new();
            std::io::stdin().read_to_string(&mut input).unwrap();
            // every `new` line names its primitive; a file may hold histories of several
            let mut chunk = String::new();
            let mut prim = String::new();
            let flush = |chunk: &str, prim: &str, out: &mut dyn Write| {
                if !chunk.is_empty() {
                    let mk = maker(prim).expect("unknown primitive");
                    replay(chunk, mk, out);
                }
            };
            for l in input.lines() {
                if l.starts_with("new ") {
                    let p = l.split_whitespace().nth(1).unwrap_or("").to_string();
                    if p != prim {
                        flush(&chunk, &prim, &mut out);
                        chunk.clear();
                        prim = p;
                    }
                }
                chunk.push_str(l);
                chunk.push('\n');
            }
            flush(&chunk, &prim, &mut out);
        }
        _ => {
            eprintln!("usage: drive dfs|random|replay ...");
            std::process::exit(2);
        }
    }
    out.flush().unwrap();
    eprintln!("{}", stats.to_json());
}
