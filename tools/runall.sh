#!/bin/sh
# Runs every claimed quick check on the current /repo tree and validates MANIFEST + evidence.
cd /verif || exit 1
if [ -n "$(git -C /repo status --porcelain)" ]; then echo "WARNING: /repo working tree is dirty"; fi
python3 tools/mkmanifest.py >/dev/null || exit 1
rc=0
# what MANIFEST.setup_cmd builds: the whole library in one environment (name clashes between
# modules that no single property imports together only show here)
if ! (cd lean && lake build ALock alock-driver alock-accept >/dev/null 2>&1); then echo "FAILED: lake build ALock (setup_cmd)"; rc=1; fi
for i in $(python3 -c "import json;print(' '.join(c['property_id'] for c in json.load(open('MANIFEST.json'))['checks']))"); do
  python3 tools/check.py $i --tier ${1:-quick} | tail -3 || rc=1
done
python3-vt - <<'PY' || rc=1
import json, jsonschema
m = json.load(open('/verif/MANIFEST.json'))
jsonschema.validate(m, json.load(open('/root/.vp/MANIFEST.schema.json')))
es = json.load(open('/root/.vp/EVIDENCE.schema.json'))
for c in m['checks']:
    e = json.load(open(c['evidence_file']))
    jsonschema.validate(e, es)
    assert e['violations'] == 0, c['property_id']
    assert e['coverage']['obligations'] == e['coverage']['discharged'], c['property_id']
print('manifest+evidence valid for', len(m['checks']), 'checks')
PY
exit $rc
