#!/usr/bin/env python3
"""Single entry point of the async-lock verification framework.

  check.py <ID> [--tier quick|thorough]     decide property <ID> on /repo's working tree
  check.py replay <file>                    re-execute a replay file on model and implementation
  check.py setup                            build everything once (MANIFEST.setup_cmd)

A check (1) builds the Lean theorems of the property and audits their axioms, (2) rebuilds the
differential harness from /repo's current working tree, (3) runs the model's executable
definitions and the real crate on the same histories and compares the observations the property
depends on, (4) evaluates the property's monitors on the implementation's traces, and (5) writes
evidence/<ID>.json.  Exit 0 = property held on everything explored; exit 1 with a line
`VIOLATION property=<ID> replay=<path>` otherwise.
"""
import hashlib
import json
import os
import re
import subprocess
import sys
import time

VERIF = os.path.dirname(os.path.dirname(os.path.abspath(__file__)))
LEAN = os.path.join(VERIF, "lean")
HARNESS = os.path.join(VERIF, "harness")
BUILD = os.path.join(VERIF, "build")
EVID = os.path.join(VERIF, "evidence")
REPLAYS = os.path.join(VERIF, "replays")
CORPUS = os.path.join(VERIF, "corpus")
REPO = "/repo"
DRIVER = os.path.join(LEAN, ".lake", "build", "bin", "alock-driver")
HBIN = os.path.join(HARNESS, "target", "debug", "harness")
ALLOWED_AXIOMS = {"propext", "Classical.choice", "Quot.sound"}

sys.path.insert(0, os.path.join(VERIF, "tools"))
from props import PROPS, PRIMS, TRUSTED_BASE, LOOM, INJECT, INJECT_BUDGET, INJECT_RANDOM, INJECT_SEARCH, INJECT_SCHED  # noqa: E402

ENV = dict(os.environ, CARGO_NET_OFFLINE="true")


def sh(cmd, cwd=None, inp=None, timeout=3600, env=None):
    p = subprocess.run(cmd, cwd=cwd, input=inp, capture_output=True, text=True, timeout=timeout,
                       env=env or ENV)
    return p.returncode, p.stdout, p.stderr


# --------------------------------------------------------------------------- builds

def build_harness():
    t0 = time.time()
    # the lock file of the crate under test is authoritative for the dependency versions
    lock_src = os.path.join(REPO, "Cargo.lock")
    lock_dst = os.path.join(HARNESS, "Cargo.lock")
    if os.path.exists(lock_src) and not os.path.exists(lock_dst):
        import shutil
        shutil.copy(lock_src, lock_dst)
    rc, out, err = sh(["cargo", "build", "--offline"], cwd=HARNESS)
    return rc == 0, (out + err)[-4000:], time.time() - t0


ACCEPT = os.path.join(LEAN, ".lake", "build", "bin", "alock-accept")
IBIN = os.path.join(HARNESS, "target", "debug", "inject")


def run_inject(prim, runs, prop):
    """all runs of the budget, merged; a run is (depth, inner, post) or ("random", prim', seed, count, maxdepth)"""
    tot = None
    for run in runs:
        if run[0] in ("random", "sched"):
            depth, inner, post = run, None, None
            r = run_inject1(prim, None, None, None, prop, random=run)
        else:
            (depth, inner, post) = run
            r = run_inject1(prim, depth, inner, post, prop)
        if tot is None:
            tot = r
            tot["runs"] = [list(run)]
        else:
            tot["runs"].append(list(run))
            for k in ("scenarios", "accepted", "s"):
                tot[k] = round(tot[k] + r[k], 1)
            tot["total_seen"] = tot.get("total_seen", 0) + r.get("total_seen", 0)
            tot["rc"] = tot["rc"] or r["rc"]
            tot["rejected"] += r["rejected"]
            tot["violations"] += r["violations"]
            tot["stderr"] += r["stderr"]
            if r["scenarios"] == 0:
                tot["empty_run"] = True
    return tot


def run_inject1(prim, depth, inner, post, prop, random=None):
    """Preemption injection: the real crate with one call preempted before each of its atomic
    operations by complete calls of other agents (hook H4), every recorded trace replayed in the
    acceptor of the atomic-granularity Lean model.  Returns a dict."""
    os.makedirs(BUILD, exist_ok=True)
    tag = "%s_%s" % (prop, prim)
    fv = os.path.join(BUILD, "inject_viol_%s.txt" % tag)
    fr = os.path.join(BUILD, "inject_rej_%s.txt" % tag)
    fs = os.path.join(BUILD, "inject_stat_%s.txt" % tag)
    if random:
        # ("random", prim', seed, count, maxdepth) or ("sched", prim', calls, preemptions, steps)
        gen = "%s %s %s %d %d %d" % (IBIN, random[0], random[1], random[2], random[3], random[4])
    else:
        gen = "%s %s %d %d %d" % (IBIN, prim, depth, inner, post)
    cmd = ("set -o pipefail; %s 2>%s | tee >(grep ' V:' | awk 'NR<=200' > %s) | %s > %s"
           % (gen, fs, fv, ACCEPT, fr))
    t0 = time.time()
    # own process group, so that a generator that spins (a changed crate may loop under injection)
    # can be killed together with the rest of the pipeline; the run then counts as incomplete
    import signal
    pr = subprocess.Popen(["bash", "-c", cmd], stdout=subprocess.PIPE, stderr=subprocess.PIPE, text=True, env=ENV,
                          start_new_session=True)
    try:
        _, err_ = pr.communicate(timeout=3000)
        rc_ = pr.returncode
    except subprocess.TimeoutExpired:
        os.killpg(pr.pid, signal.SIGKILL)
        _, err_ = pr.communicate()
        rc_, err_ = 124, (err_ or "") + "\ntimeout: the injection pipeline was killed after 3000 s"
    # the process substitution may still be flushing
    time.sleep(0.2)
    res = {"prim": random[1] if random else prim, "depth": depth, "inner": inner, "s": round(time.time() - t0, 1), "rc": rc_,
           "scenarios": 0, "accepted": 0, "rejected": [], "violations": [], "stderr": err_[-2000:]}
    try:
        st = open(fs).read()
        m = re.search(r"scenarios=(\d+) violations=(\d+)", st)
        if m:
            res["scenarios"] = int(m.group(1))
            res["impl_violations"] = int(m.group(2))
        else:
            res["stderr"] += st[-2000:]
    except OSError:
        pass
    try:
        for line in open(fr):
            line = line.rstrip("\n")
            m = re.match(r"TOTAL (\d+) accepted (\d+)", line)
            if m:
                res["total_seen"] = int(m.group(1))
                res["accepted"] = int(m.group(2))
            elif line and len(res["rejected"]) < 50:
                res["rejected"].append(line)
    except OSError:
        pass
    try:
        for line in open(fv):
            hd, _, body = line.rstrip("\n").partition(" | ")
            toks = body.split(" ")
            for v in [t for t in toks if t.startswith("V:")]:
                res["violations"].append({"header": hd, "key": toks[0], "what": v[2:].replace("_", " "),
                                          "trace": body, "prim": res["prim"]})
    except OSError:
        pass
    for f in (fv, fr, fs):
        try:
            os.remove(f)
        except OSError:
            pass
    return res


LOOMH = os.path.join(VERIF, "loomh")
LBIN = os.path.join(LOOMH, "target", "debug", "loomh")


def build_loom():
    t0 = time.time()
    lock_src = os.path.join(REPO, "Cargo.lock")
    lock_dst = os.path.join(LOOMH, "Cargo.lock")
    if os.path.exists(lock_src) and not os.path.exists(lock_dst):
        import shutil
        shutil.copy(lock_src, lock_dst)
    rc, out, err = sh(["cargo", "build", "--offline"], cwd=LOOMH)
    return rc == 0, (out + err)[-4000:], time.time() - t0


def run_loom(scenarios, tier):
    """Runs loom scenarios in parallel; returns {name: (ok, seconds, output)}."""
    import concurrent.futures
    env = dict(ENV, RUST_BACKTRACE="0")
    if tier == "thorough":
        env["LOOMH_EXTRA_PREEMPTIONS"] = "1"
    limit = 120 if tier == "quick" else 1800

    def one(name):
        t0 = time.time()
        try:
            p = subprocess.run([LBIN, name], capture_output=True, text=True, timeout=limit, env=env)
            ok = p.returncode == 0 and ("ok " + name) in p.stdout
            out = "\n".join(l for l in (p.stdout + p.stderr).splitlines()
                            if l.strip() and not l.startswith("   ") and not l.startswith("stack backtrace"))
            return name, (ok, round(time.time() - t0, 2), out[-3000:], False)
        except subprocess.TimeoutExpired:
            # not finishing within the budget is not a verdict
            return name, (True, limit, "timeout after %ds: exploration incomplete" % limit, True)

    with concurrent.futures.ThreadPoolExecutor(max_workers=8) as ex:
        return dict(ex.map(one, scenarios))


def run_miri(tier, seed):
    """Memory-safety search (C15): the harness replays last-owner histories and a few random ones
    under Miri (use after free, invalid drop order, leaks). A search aid, not a proof."""
    ops = open(os.path.join(CORPUS, "miri_last_owner.txt")).read()
    n, ln = (3, 25) if tier == "quick" else (25, 40)
    for prim in ("mutex", "rwlock", "sem"):
        rc, out, err = sh([HBIN, "random", prim, str(seed + 100), str(n), str(ln)])
        ops += "".join(l.split(" || ")[0] + "\n" for l in out.splitlines())
    os.makedirs(BUILD, exist_ok=True)
    path = os.path.join(BUILD, "miri_input.txt")
    open(path, "w").write(ops)
    t0 = time.time()
    env = dict(ENV, MIRIFLAGS="-Zmiri-disable-isolation", HARNESS_FLUSH="1")
    p = subprocess.run(["cargo", "+nightly", "miri", "run", "--offline", "--bin", "harness", "--", "replay"],
                       cwd=HARNESS, input=ops, capture_output=True, text=True, env=env, timeout=7200)
    errs = [l for l in p.stderr.splitlines() if l.startswith("error")]
    bad = p.returncode != 0 or any("Undefined Behavior" in e or "leaked" in e for e in errs)
    # the history that was running: from the last `new` line of what was printed
    lines = [l.split(" || ")[0] for l in p.stdout.splitlines() if " || " in l]
    last_new = max([i for i, l in enumerate(lines) if l.startswith("new ")] or [0])
    return {"ok": not bad, "ops": len(ops.splitlines()), "s": round(time.time() - t0, 1),
            "errors": errs[:3], "history": lines[last_new:] + (["<the next operation is where Miri stopped>"] if bad else []),
            "stderr_tail": "\n".join(l for l in p.stderr.splitlines() if not l.startswith("warning"))[-2500:] if bad else ""}


def build_lean(targets):
    t0 = time.time()
    rc, out, err = sh(["lake", "build"] + targets, cwd=LEAN)
    return rc == 0, (out + err)[-6000:], time.time() - t0


def theorem_names(module):
    """(namespace-qualified) theorem names declared in a Props module, in order."""
    path = os.path.join(LEAN, module.replace(".", "/") + ".lean")
    src = open(path).read()
    ns = []
    names = []
    for line in src.splitlines():
        m = re.match(r"^namespace\s+(\S+)", line)
        if m:
            ns.append(m.group(1))
            continue
        m = re.match(r"^end\s+(\S+)", line)
        if m and ns and ns[-1] == m.group(1):
            ns.pop()
            continue
        m = re.match(r"^(?:private\s+)?theorem\s+(\S+)", line)
        if m:
            names.append(".".join(ns + [m.group(1)]))
    return names, src


FORBIDDEN = re.compile(r"\b(sorry|admit|native_decide|bv_decide|implemented_by|unsafe)\b|^\s*axiom\s|maxHeartbeats\s+0")


def strip_comments(src):
    src = re.sub(r"/-.*?-/", "", src, flags=re.S)
    src = re.sub(r"--.*", "", src)
    return src


def audit(modules, recheck=False):
    """#print axioms on every theorem of the property modules + textual scan of the whole project;
    `recheck`: also replay the compiled modules through leanchecker (the toolchain's independent
    re-checker of .olean files)."""
    res = {"theorems": [], "bad_axioms": [], "forbidden": [], "ok": True, "log": ""}
    if recheck:
        t0 = time.time()
        rc, out, err = sh(["lake", "env", "leanchecker"] + list(modules), cwd=LEAN)
        res["leanchecker"] = {"rc": rc, "s": round(time.time() - t0, 1), "modules": list(modules)}
        if rc != 0:
            res["ok"] = False
            res["bad_axioms"].append({"theorem": "<leanchecker>", "axioms": [(out + err)[-500:]]})
    all_names = []
    for mod in modules:
        names, _ = theorem_names(mod)
        all_names += names
    os.makedirs(BUILD, exist_ok=True)
    tag = hashlib.sha1(" ".join(modules).encode()).hexdigest()[:10]
    f = os.path.join(BUILD, "Audit_%s.lean" % tag)
    with open(f, "w") as fh:
        for mod in modules:
            fh.write("import %s\n" % mod)
        for n in all_names:
            fh.write("#print axioms %s\n" % n)
    rc, out, err = sh(["lake", "env", "lean", f], cwd=LEAN)
    res["log"] = (out + err)[-3000:]
    if rc != 0:
        res["ok"] = False
    seen = {}
    for m in re.finditer(r"'([^']+)' (does not depend on any axioms|depends on axioms: \[([^\]]*)\])", out, flags=re.S):
        axs = set(a.strip() for a in (m.group(3) or "").replace("\n", " ").split(",") if a.strip())
        seen[m.group(1)] = sorted(axs)
        if not axs <= ALLOWED_AXIOMS:
            res["bad_axioms"].append({"theorem": m.group(1), "axioms": sorted(axs)})
    for n in all_names:
        if n not in seen:
            res["ok"] = False
            res["bad_axioms"].append({"theorem": n, "axioms": ["<not printed>"]})
    res["theorems"] = [{"name": n, "axioms": seen.get(n)} for n in all_names]
    # textual scan of every Lean source of the project
    for root, _, files in os.walk(os.path.join(LEAN, "ALock")):
        for fn in files:
            if fn.endswith(".lean"):
                p = os.path.join(root, fn)
                for i, line in enumerate(strip_comments(open(p).read()).splitlines()):
                    if FORBIDDEN.search(line):
                        res["forbidden"].append("%s:%d: %s" % (os.path.relpath(p, LEAN), i + 1, line.strip()))
    if res["bad_axioms"] or res["forbidden"]:
        res["ok"] = False
    return res


# --------------------------------------------------------------------------- differential

def parse_obs(obs):
    """`out | w=.. | words=.. ev=.. strong=..` -> dict of fields"""
    d = {"raw": obs}
    parts = obs.split(" | ")
    d["out"] = parts[0]
    if len(parts) > 1:
        d["w"] = parts[1]
    if len(parts) > 2:
        for kv in parts[2].split():
            if "=" in kv:
                k, v = kv.split("=", 1)
                d[k] = v
    return d


def run_histories(prim, gens, tag):
    """Run the harness generators for a primitive, then the model on the same ops.
    Returns list of (impl_lines, model_lines, stats)."""
    os.makedirs(BUILD, exist_ok=True)
    results = []
    for i, g in enumerate(gens):
        rc, out, err = sh([HBIN] + g, cwd=VERIF, timeout=3000)
        crashed = None
        if rc != 0:
            # the implementation crashed (abort/panic/signal) inside the harness: re-run
            # line-buffered to keep the history that leads to the crash
            rc, out, err = sh([HBIN] + g, cwd=VERIF, timeout=3000, env=dict(ENV, HARNESS_FLUSH="1"))
            lines = out.splitlines()
            if lines and " || " not in lines[-1] and lines[-1] not in ("(", ")"):
                lines = lines[:-1]
            out = "\n".join(lines) + "\n"
            crashed = {"rc": rc, "stderr": err[-1500:]}
        stats = {}
        try:
            stats = json.loads(err.strip().splitlines()[-1])
        except Exception:
            pass
        rc2, mout, merr = sh([DRIVER], inp=out, timeout=3000)
        if rc2 != 0:
            raise RuntimeError("model driver failed: %s" % merr[-2000:])
        if crashed:
            stats = dict(stats, crashed=crashed)
        results.append((g, out.splitlines(), mout.splitlines(), stats))
    return results


def compare(prim, results, fields_by_prop, monitors_wanted):
    """Scan impl/model streams. Returns per-property first mismatch / monitor hit with the history."""
    found = {}       # prop -> dict(kind, history, impl, model, gen)
    counts = {"ops": 0, "histories": 0, "states": 0}
    samples = []
    for g, impl, model, stats in results:
        counts["histories"] += stats.get("histories", 0)
        counts["states"] += stats.get("distinct_states", 0)
        if stats.get("crashed"):
            # reconstruct the history that was running when the implementation died
            path, stack, new_line = [], [], None
            for a in impl:
                if a == "(":
                    stack.append(len(path)); continue
                if a == ")":
                    path = path[:stack.pop()]; continue
                op = a.partition(" || ")[0]
                if op.startswith("new "):
                    new_line, path, stack = op, [], []
                else:
                    path.append(op)
            for p in fields_by_prop:
                found.setdefault(p + "#monitor", {"kind": "crash", "gen": g,
                                 "history": [new_line] + path + ["<the next operation crashed the process>"],
                                 "impl": json.dumps(stats["crashed"]), "model": "",
                                 "what": "the implementation aborted/panicked inside the harness (rc=%s)" % stats["crashed"]["rc"]})
            model = model[:len(impl)]
            impl = impl[:len(model)]
        if len(impl) != len(model):
            for p in fields_by_prop:
                found.setdefault(p, {"kind": "correspondence", "gen": g, "history": [],
                                     "impl": "<%d lines>" % len(impl), "model": "<%d lines>" % len(model),
                                     "what": "stream lengths differ"})
            continue
        path = []       # ops from the root of the current history
        new_line = None
        stack = []
        for a, b in zip(impl, model):
            if a == "(":
                stack.append(len(path))
                continue
            if a == ")":
                path = path[:stack.pop()]
                continue
            op, _, rest = a.partition(" || ")
            mons = []
            if " M!" in rest:
                rest, _, ms = rest.partition(" M!")
                mons = ms.split(",")
            if op.startswith("new "):
                new_line = op
                path = []
                stack = []
            else:
                path.append(op)
                counts["ops"] += 1
            if len(samples) < 3 and len(path) >= 6 and not stack:
                samples.append({"history": [new_line] + list(path), "last_obs": rest})
            for mfull in mons:
                m = mfull.split(":")[0]
                if m in monitors_wanted and (m + "#monitor") not in found:
                    found[m + "#monitor"] = {"kind": "monitor", "gen": g, "history": [new_line] + list(path),
                                             "impl": rest, "model": b, "what": "monitor %s hit on the implementation" % mfull}
            if rest != b:
                di, dm = parse_obs(rest), parse_obs(b)
                for p, fields in fields_by_prop.items():
                    if p in found:
                        continue
                    diff = [f for f in fields if di.get(f) != dm.get(f)
                            and not (f == "at" and op.startswith("blk "))]   # blocking forms: not listed
                    if diff:
                        found[p] = {"kind": "correspondence", "gen": g, "history": [new_line] + list(path),
                                    "impl": rest, "model": b,
                                    "what": "model and implementation disagree on %s" % ",".join(diff)}
    return found, counts, samples


def search_failing(prim, prop, corr, mons, seed, budget_s=90):
    """After a correspondence break: look for a history on which the property's monitor fires on
    the implementation. (1) exhaustive continuation of the diverging history, (2) deeper DFS and
    more random histories. Search only - never part of the proof."""
    t0 = time.time()
    hist = corr.get("history") or []
    attempts = []
    if hist and hist[0]:
        for cut in (0, 1, 2):
            pre = hist[:len(hist) - cut] if cut else hist
            if len(pre) >= 1:
                attempts.append((["dfsfrom", "5"], "\n".join(pre) + "\n"))
        for cut in (0, 1, 3):
            pre = hist[:len(hist) - cut] if cut else hist
            if len(pre) >= 1:
                attempts.append((["randomfrom", str(seed + cut), "20000", "14"], "\n".join(pre) + "\n"))
    spec = PRIMS[prim]
    th = spec["thorough"]
    for nl in spec["new_lines"]:
        attempts.append((["dfs", str(th["depth"])] + nl.split(), None))
    attempts.append((["random", prim, str(seed + 7919), str(th["random_count"]), str(th["random_len"])], None))
    for g, inp in attempts:
        if time.time() - t0 > budget_s:
            break
        try:
            rc, out, err = sh([HBIN] + g, inp=inp, timeout=max(5, budget_s - (time.time() - t0)))
        except subprocess.TimeoutExpired:
            continue
        if rc != 0 or " M!" not in out:
            continue
        path, stack, new_line = [], [], None
        for a in out.splitlines():
            if a == "(":
                stack.append(len(path)); continue
            if a == ")":
                path = path[:stack.pop()]; continue
            op, _, rest = a.partition(" || ")
            if op.startswith("new "):
                new_line, path, stack = op, [], []
            else:
                path.append(op)
            if " M!" in rest:
                rest, _, ms = rest.partition(" M!")
                ms = ",".join(x.split(":")[0] for x in ms.split(","))
                if any(m in mons for m in ms.split(",")):
                    return {"kind": "monitor", "gen": g, "history": [new_line] + list(path), "impl": rest,
                            "what": "monitor %s hit on the implementation" % ",".join(sorted(set(ms.split(",")) & set(mons)))}
    return None


def gens_for(prim, tier, seed):
    spec = PRIMS[prim]
    t = spec[tier]
    gens = []
    for nl in spec["new_lines"]:
        if "beam" in t:
            # exhaustive DFS, then exhaustive DFS again from the most contended states it reached
            w, r, d = t["beam"]
            gens.append(["beam", str(t["depth"]), str(w), str(r), str(d)] + nl.split())
        else:
            gens.append(["dfs", str(t["depth"])] + nl.split())
    gens.append(["random", prim, str(seed), str(t["random_count"]), str(t["random_len"])])
    return gens


def corpus_for(prim):
    """Minimised past failures / hand-written regression histories, replayed first."""
    out = []
    d = os.path.join(CORPUS, prim)
    if os.path.isdir(d):
        for fn in sorted(os.listdir(d)):
            if fn.endswith(".ops"):
                out.append(os.path.join(d, fn))
    return out


def run_corpus(prim):
    results = []
    for f in corpus_for(prim):
        ops = open(f).read()
        rc, out, err = sh([HBIN, "replay"], inp=ops, timeout=600)
        if rc != 0:
            raise RuntimeError("harness replay failed on %s: %s" % (f, err[-1000:]))
        rc2, mout, merr = sh([DRIVER], inp=ops, timeout=600)
        results.append((["corpus", os.path.relpath(f, VERIF)], out.splitlines(), mout.splitlines(),
                        {"histories": 1}))
    return results


# --------------------------------------------------------------------------- known findings

def load_known():
    p = os.path.join(VERIF, "known_findings.json")
    if os.path.exists(p):
        return json.load(open(p))
    return {"findings": []}


def finding_matches(entry, prop, hist):
    if entry.get("property") != prop or entry.get("kind") != "known":
        return False
    sig = entry.get("signature", [])
    # the finding's minimised op signature must be a subsequence of the failing history
    it = iter(h.split()[0] + " " + " ".join(h.split()[1:]) for h in hist)
    return all(any(s == h for h in it) for s in sig)


# --------------------------------------------------------------------------- main check

def write_replay(prop, tag, data):
    os.makedirs(REPLAYS, exist_ok=True)
    p = os.path.join(REPLAYS, "%s_%s.json" % (prop, tag))
    json.dump(data, open(p, "w"), indent=1)
    return p


def check(prop, tier, seed):
    t0 = time.time()
    spec = PROPS[prop]
    violations = []       # (replay_path, suffix)
    known_lines = []
    notes = []
    assumptions = list(spec.get("assumptions", []))
    cov = {"trusted_base": TRUSTED_BASE, "partial": spec.get("partial", []),
           "theorems": [], "correspondence": {}, "samples": []}
    obligations = 0
    discharged = 0

    # 0. tables generated from /repo's sources
    if spec.get("atomics"):
        import gen_atomics
        ss, _ = gen_atomics.generate(write=True)
        cov["generated_tables"] = {"lean/ALock/Generated/Atomics.lean": "%d atomic sites extracted from /repo/src" % len(ss)}

    # 1. Lean: build the property's theorem modules (+ driver), audit axioms
    mods = spec["modules"]
    # the model driver does not depend on the property modules (nor on the generated tables): a
    # broken proof obligation must not stop the differential search
    ok_d, log_d, _ = build_lean(["alock-driver"])
    ok_l, log_l, dt_l = build_lean(mods)
    if not ok_d:
        ok_l, log_l = False, log_d
    names = []
    for m in mods:
        n, _ = theorem_names(m)
        names += n
    obligations += len(names)
    cov["lean_build_s"] = round(dt_l, 1)
    if not ok_l:
        failing = re.findall(r"error: ([^\n]+)", log_l)[:5]
        rp = write_replay(prop, "lean_build", {"property": prop, "kind": "proof-obligation",
                          "what": "lake build of %s failed" % mods, "errors": failing, "log": log_l})
        violations.append((rp, "no-failing-input-found"))
        aud = {"ok": False, "theorems": [], "bad_axioms": [], "forbidden": []}
    else:
        aud = audit(mods, recheck=(tier == "thorough"))
        cov["theorems"] = aud["theorems"]
        if "leanchecker" in aud:
            cov["leanchecker"] = aud["leanchecker"]
        if aud["ok"]:
            discharged += len(names)
        else:
            rp = write_replay(prop, "axiom_audit", {"property": prop, "kind": "proof-obligation",
                              "what": "axiom audit failed", "bad_axioms": aud["bad_axioms"],
                              "forbidden": aud["forbidden"], "log": aud.get("log", "")})
            violations.append((rp, "no-failing-input-found"))
    cov["checker_cmd"] = "cd lean && lake build %s && lake env lean <#print axioms of every theorem>" % " ".join(mods)

    # 2. harness from /repo's working tree
    ok_h, log_h, dt_h = build_harness()
    cov["harness_build_s"] = round(dt_h, 1)
    if not ok_h:
        rp = write_replay(prop, "harness_build", {"property": prop, "kind": "correspondence",
                          "what": "the differential harness no longer builds against /repo", "log": log_h})
        violations.append((rp, "no-failing-input-found"))

    # 3./4. correspondence + monitors per primitive
    total_ops = 0
    total_hist = 0
    total_states = 0
    if ok_d and ok_h:
        for prim in spec["prims"]:
            obligations += 1
            fields = {prop: spec["fields"]}
            mons = set(spec.get("monitors", [prop]))
            try:
                results = run_corpus(prim) + run_histories(prim, gens_for(prim, tier, seed), prop)
            except RuntimeError as e:
                rp = write_replay(prop, "harness_run_" + prim, {"property": prop, "kind": "correspondence",
                                  "what": "harness or model driver crashed", "log": str(e)})
                violations.append((rp, "no-failing-input-found"))
                continue
            found, counts, samples = compare(prim, results, fields, mons)
            total_ops += counts["ops"]
            total_hist += counts["histories"]
            total_states += counts["states"]
            cov["correspondence"][prim] = {
                "generators": [" ".join(r[0]) for r in results],
                "ops_compared": counts["ops"], "histories": counts["histories"],
                "distinct_impl_states": counts["states"],
                "fields_compared": spec["fields"],
                "distribution": {" ".join(r[0]): {k: r[3].get(k) for k in ("op_kinds", "outcomes") if k in r[3]}
                                 for r in results if r[0][0] == "random"},
            }
            cov["samples"] += samples[:2]
            mon_hits = [v for k, v in found.items() if k.endswith("#monitor")]
            corr = found.get(prop)
            if not corr and not mon_hits:
                discharged += 1
                continue
            # a monitor hit on the implementation is the best replay
            if mon_hits:
                for h in mon_hits:
                    violations.append((write_replay(prop, "monitor_" + prim, dict(h, property=prop)), ""))
            elif corr:
                # the tie is broken but no monitor fired yet: search the implementation for a
                # concrete failing history, starting from the point of divergence
                hit = search_failing(prim, prop, corr, mons, seed)
                if hit:
                    violations.append((write_replay(prop, "monitor_" + prim, dict(hit, property=prop,
                                       found_by="search after correspondence break",
                                       divergence=corr)), ""))
                else:
                    violations.append((write_replay(prop, "corr_" + prim, dict(corr, property=prop,
                                       broken="correspondence %s model <-> implementation" % prim)),
                                       "no-failing-input-found"))

    # 4a. preemption injection on the implementation, every trace replayed in the acceptor of the
    # atomic-granularity model (the tie of the interleaving theorems to the code's control flow)
    inj = INJECT.get(prop, [])
    if inj and ok_h:
        ok_a, log_a, _ = build_lean(["alock-accept"])
        cov["preemption_injection"] = {}
        for prim in inj:
            obligations += 1
            if not ok_a:
                rp = write_replay(prop, "accept_build", {"property": prop, "kind": "correspondence",
                                  "what": "the acceptor (lean/ALock/Atomic/Accept.lean) no longer builds", "log": log_a})
                violations.append((rp, "no-failing-input-found"))
                continue
            rc_, rd_ = INJECT_RANDOM[tier]
            r = run_inject(prim, list(INJECT_BUDGET[tier][prim]) + [("random", prim, seed, rc_, rd_)]
                           + [("sched",) + tuple(x) for x in INJECT_SCHED[tier][prim]], prop)
            cov["preemption_injection"][prim] = {k: r[k] for k in ("runs", "scenarios", "accepted", "s")}
            total_hist += r["scenarios"]
            def mine_of(r):
                m = [v for v in r["violations"] if prop in re.findall(r"C\d\d", v["what"].split("]")[0])]
                if prop == "C10":
                    # a trace of a cancelled operation: the schedule has to contain a cancellation
                    m = [v for v in m if ":cancel" in v["trace"]]
                return m
            mine = mine_of(r)
            incomplete = r["rc"] != 0 or r["scenarios"] == 0 or r.get("empty_run") or r.get("total_seen") != r["scenarios"]
            if not mine and (r["rejected"] or incomplete):
                # the tie is broken: look deeper (longer random prefixes, more agents) for a schedule on
                # which the implementation itself violates the property
                cnt_, dep_ = INJECT_SEARCH
                for p2 in ([prim, "mutex5"] if prim == "mutex" else [prim]):
                    r2 = run_inject(prim, [("random", p2, seed + 1, cnt_, dep_)], prop)
                    mine = mine_of(r2)
                    if mine:
                        cov["preemption_injection"][prim]["search"] = {"prim": p2, "scenarios": r2["scenarios"], "s": r2["s"]}
                        break
            if mine:
                v = mine[0]
                hd = v["header"].split()
                rp = write_replay(prop, "inject_" + prim, {
                    "property": prop, "kind": "inject", "what": "real crate, one call preempted by hook H4: " + v["what"],
                    "scenario": v["key"], "trace": v["trace"], "others": len(mine) - 1,
                    "cmd": "cd harness && cargo build --offline && ./target/debug/inject replay %s %s '%s'" % (v.get("prim", prim), hd[2], v["key"])})
                violations.append((rp, ""))
            elif r["rejected"] or incomplete:
                rej = r["rejected"][0] if r["rejected"] else ""
                rp = write_replay(prop, "accept_" + prim, {
                    "property": prop, "kind": "correspondence",
                    "broken": "acceptor %s: a recorded execution of the crate is not a run of the atomic-granularity model "
                              "(theorem *_accepted no longer applies to it)" % prim,
                    "first_rejection": rej, "rejections": r["rejected"][:10], "other_property_violations": r["violations"][:3],
                    "incomplete": incomplete, "stderr": r["stderr"],
                    "cmd": "cd harness && cargo build --offline && ./target/debug/inject replay %s <param> '<key>' | ../lean/.lake/build/bin/alock-accept" % prim})
                violations.append((rp, "no-failing-input-found"))
            else:
                discharged += 1

    # 4b. interleaving / weak-memory search on the implementation (loom): a search aid, not a proof
    scen = LOOM.get(prop, [])
    if scen:
        ok_b, log_b, dt_b = build_loom()
        cov["interleaving_search"] = {"tool": "loom 0.7.2 on the real crate (loomh/)", "build_s": round(dt_b, 1),
                                      "scenarios": {}}
        if not ok_b:
            rp = write_replay(prop, "loom_build", {"property": prop, "kind": "correspondence",
                              "what": "the loom scenarios no longer build against /repo", "log": log_b})
            violations.append((rp, "no-failing-input-found"))
        else:
            for name, (ok, secs, out, timed_out) in run_loom(scen, tier).items():
                cov["interleaving_search"]["scenarios"][name] = {"ok": ok, "s": secs, "incomplete": timed_out}
                if not ok:
                    rp = write_replay(prop, "loom_" + name, {"property": prop, "kind": "loom", "scenario": name,
                                      "what": "loom found an interleaving of scenario %s (loomh/src/main.rs) on which the "
                                              "implementation fails: %s" % (name, out.splitlines()[1] if len(out.splitlines()) > 1 else out[:200]),
                                      "output": out, "cmd": "cd loomh && cargo build --offline && ./target/debug/loomh " + name})
                    violations.append((rp, ""))

    # 4c. memory-safety search under Miri (C15 only)
    if spec.get("miri") and ok_h:
        m = run_miri(tier, seed)
        cov["memory_safety_search"] = {"tool": "cargo +nightly miri run (harness replay)", "ops": m["ops"], "s": m["s"], "ok": m["ok"]}
        if not m["ok"]:
            rp = write_replay(prop, "miri", {"property": prop, "kind": "miri", "history": m["history"],
                              "what": "Miri reports %s while the harness executes this history" % (m["errors"][:1] or ["an error"])[0],
                              "errors": m["errors"], "stderr_tail": m["stderr_tail"]})
            violations.append((rp, ""))

    # a concrete failing input supersedes "this obligation no longer checks"
    if any(sfx == "" for _, sfx in violations):
        broken = [rp for rp, sfx in violations if sfx]
        violations = [(rp, sfx) for rp, sfx in violations if sfx == ""]
        for rp, _ in violations:
            d = json.load(open(rp))
            d["also_broken"] = broken
            json.dump(d, open(rp, "w"), indent=1)

    # 5. known findings / verdict
    known = load_known()
    real = []
    for rp, suffix in violations:
        data = json.load(open(rp))
        hist = data.get("history", [])
        hit = None
        for e in known.get("findings", []):
            if finding_matches(e, prop, hist):
                hit = e
        if hit:
            known_lines.append("KNOWN-FINDING: property=%s %s" % (prop, hit.get("what", "")))
        else:
            real.append((rp, suffix))

    cov["obligations"] = obligations
    cov["discharged"] = discharged if not real else min(discharged, obligations - 1)
    cov["traces_validated_against_impl"] = total_hist
    cov["ops_compared"] = total_ops
    cov["distinct_impl_states"] = total_states
    cov["evaluations"] = total_ops
    cov["rule"] = ("histories = exhaustive DFS over valid op sequences (pruned by implementation state) "
                   "+ seeded random; non-trivial = distinct implementation state keys reached")
    cov["distinct_nontrivial"] = total_states
    if not cov["samples"]:
        cov["samples"] = [{"theorems": names[:5]}]
    cov["samples"].append({"theorem_statements_in": ["lean/" + m.replace(".", "/") + ".lean" for m in mods]})
    ev = {
        "property_id": prop, "tier": tier, "seed": seed, "level": "proof",
        "coverage": cov, "assumptions": assumptions, "wall_s": round(time.time() - t0, 2),
        "violations": len(real),
    }
    os.makedirs(EVID, exist_ok=True)
    json.dump(ev, open(os.path.join(EVID, prop + ".json"), "w"), indent=1)
    for k in known_lines:
        print(k)
    for rp, suffix in real:
        line = "VIOLATION property=%s replay=%s" % (prop, rp)
        if suffix:
            line += " " + suffix
        print(line)
    if not real:
        print("OK property=%s tier=%s theorems=%d ops_compared=%d histories=%d wall=%.1fs"
              % (prop, tier, len(names), total_ops, total_hist, time.time() - t0))
    return 1 if real else 0


def check_c16(tier, seed):
    """C16 has no histories: the inputs are rows (type, trait / question, kind of T) and the
    implementation's side of the correspondence is rustc's verdict on /repo's working tree."""
    import c16
    prop = "C16"
    t0 = time.time()
    spec = PROPS[prop]
    violations = []
    cov = {"trusted_base": TRUSTED_BASE + [
        "rustc 's trait solver and borrow checker decide the rows; tools/c16.py transcribes them",
        "the capability table of lean/ALock/Markers.lean is written by hand from the public API (inventory compared on every run)"],
        "partial": spec.get("partial", []), "theorems": [], "samples": []}
    mods = spec["modules"]
    names = []
    for m in mods:
        names += theorem_names(m)[0]
    obligations = len(names) + 2          # + probe validity + API inventory
    discharged = 0
    ok_h, log_h, dt_h = build_harness()
    facts = None
    if not ok_h:
        rp = write_replay(prop, "harness_build", {"property": prop, "kind": "correspondence",
                          "what": "the marker table binary / harness no longer builds against /repo", "log": log_h})
        violations.append((rp, "no-failing-input-found"))
    else:
        try:
            facts = c16.generate()
        except RuntimeError as e:
            rp = write_replay(prop, "generate", {"property": prop, "kind": "correspondence",
                              "what": "table generation failed", "log": str(e)})
            violations.append((rp, "no-failing-input-found"))
    if facts is not None:
        ok_l, log_l, dt_l = build_lean(mods)
        cov["lean_build_s"] = round(dt_l, 1)
        cov["rows"] = {"auto_trait_rows": len(facts["auto"]) * 2, "method_rows": len(facts["callable"]),
                       "variance_rows": len(facts["covariant"]), "lifetime_probes": len(facts["borrowed"]),
                       "impl_headers_scanned": facts["impl_headers"], "api_items": facts["api_items"]}
        # the report evaluates the same definitions; it names the offending rows
        rc, out, err = sh(["lake", "env", "lean", "--run", "MarkersMain.lean"], cwd=LEAN)
        bad = [l for l in out.splitlines() if l.startswith("BAD ")]
        rows = [l for l in out.splitlines() if l.startswith("row ") or l.startswith("variance ")]
        cov["samples"] = rows[:3] + [r for r in rows if "RwLockWriteGuard Send" in r][:4]
        for b in bad:
            w = b.split()
            data = {"property": prop, "kind": "row", "what": b}
            if w[1] == "marker":
                x = w[2].split(".")[-1]
                tr = w[3].lower()
                k = w[4]
                src = c16.marker_probe(x, tr, k)
                data.update({"row": {"type": x, "trait": w[3], "kind_of_T": k},
                             "what": "rustc accepts %s<T>: %s for a T that is %s, but the chain %s ends in an access "
                                     "(&mut T / drop T needs Send, shared &T needs Sync) that such a T does not allow"
                                     % (x, w[3], k, b.split("via=")[-1]),
                             "probe_source": src})
            elif w[1] == "variance":
                x = w[2].split(".")[-1]
                data.update({"row": {"type": x, "question": "covariant in T"},
                             "what": "%s is covariant in T but leads to &mut T" % x,
                             "probe_source": open(os.path.join(c16.OUTDIR, "probes", "covariant__%s.rs" % x)).read(),
                             "rustc_cmd": facts["probe_cmds"].get("covariant__%s" % x)})
            elif w[1] == "outlives":
                data.update({"row": {"borrowed": w[2], "question": "outlives its lock"},
                             "probe_source": open(os.path.join(c16.OUTDIR, "probes", "outlives__%s.rs" % w[2])).read(),
                             "rustc_cmd": facts["probe_cmds"].get("outlives__%s" % w[2])})
            tag = re.sub(r"[^A-Za-z0-9]+", "_", " ".join(w[1:5]))[:60]
            concrete = w[1] in ("marker", "variance", "outlives")
            violations.append((write_replay(prop, tag, data), "" if concrete else "no-failing-input-found"))
        if not ok_l:
            if not bad:
                failing = re.findall(r"error: ([^\n]+)", log_l)[:5]
                rp = write_replay(prop, "lean_build", {"property": prop, "kind": "proof-obligation",
                                  "what": "lake build of %s failed" % mods, "errors": failing, "log": log_l})
                violations.append((rp, "no-failing-input-found"))
        else:
            aud = audit(mods, recheck=(tier == "thorough"))
            cov["theorems"] = aud["theorems"]
            if aud["ok"]:
                discharged += len(names)
            else:
                rp = write_replay(prop, "axiom_audit", {"property": prop, "kind": "proof-obligation",
                                  "what": "axiom audit failed", "bad_axioms": aud["bad_axioms"],
                                  "forbidden": aud["forbidden"]})
                violations.append((rp, "no-failing-input-found"))
        if not facts["broken"] and not facts["foreign"]:
            discharged += 1
        if facts["api_added"] or facts["api_removed"]:
            if not bad:
                rp = write_replay(prop, "api_inventory", {"property": prop, "kind": "correspondence",
                                  "what": "the public API of the T-parametric types differs from the inventory the "
                                          "capability table accounts for", "added": facts["api_added"],
                                  "removed": facts["api_removed"]})
                violations.append((rp, "no-failing-input-found"))
        else:
            discharged += 1
        if tier == "thorough":
            n, diffs = c16.cross_check(c16.crate_rmeta(), facts["auto"])
            obligations += 1
            cov["rows"]["cross_check_probes"] = n
            if diffs:
                rp = write_replay(prop, "cross_check", {"property": prop, "kind": "correspondence",
                                  "what": "direct assert_send/assert_sync probes disagree with the table", "diffs": diffs[:10]})
                violations.append((rp, "no-failing-input-found"))
            else:
                discharged += 1
    cov["checker_cmd"] = "python3 tools/c16.py && cd lean && lake build %s && lake env lean <#print axioms of every theorem>" % " ".join(mods)
    cov["obligations"] = obligations
    cov["discharged"] = discharged if not violations else min(discharged, obligations - 1)
    nrows = sum(v for v in cov.get("rows", {}).values() if isinstance(v, int))
    cov["evaluations"] = nrows
    cov["distinct_nontrivial"] = cov.get("rows", {}).get("auto_trait_rows", 0)
    cov["rule"] = "rows = (type, trait or question, kind of T) decided by rustc on the working tree; the table is the whole domain of the property"
    cov["samples"].append({"theorem_statements_in": ["lean/" + m.replace(".", "/") + ".lean" for m in mods]})
    ev = {"property_id": prop, "tier": tier, "seed": seed, "level": "proof", "coverage": cov,
          "assumptions": list(spec.get("assumptions", [])), "wall_s": round(time.time() - t0, 2),
          "violations": len(violations)}
    os.makedirs(EVID, exist_ok=True)
    json.dump(ev, open(os.path.join(EVID, prop + ".json"), "w"), indent=1)
    for rp, suffix in violations:
        print(("VIOLATION property=%s replay=%s %s" % (prop, rp, suffix)).rstrip())
    if not violations:
        print("OK property=%s tier=%s theorems=%d rows=%d wall=%.1fs" % (prop, tier, len(names), nrows, time.time() - t0))
    return 1 if violations else 0


def replay_row(data):
    import c16
    print("reason:", data.get("what"))
    src = data.get("probe_source")
    if not src:
        print(json.dumps(data, indent=1)[:4000])
        return 0
    ok_h, log_h, _ = build_harness()
    rmeta = c16.crate_rmeta()
    os.makedirs(os.path.join(c16.OUTDIR, "probes"), exist_ok=True)
    name, ok, errs, cmd = c16.run_probe(("replay_probe", src, rmeta))
    print(src.split("pub struct Neither", 1)[-1].split("\n", 1)[-1])
    print("rustc on /repo's working tree:", "ACCEPTS the program" if ok else "rejects it: %s" % errs[:2])
    print("cmd:", cmd)
    return 0


def replay(path):
    data = json.load(open(path))
    if data.get("kind") == "row":
        return replay_row(data)
    if data.get("kind") == "miri":
        build_harness()
        ops = "\n".join(h for h in data["history"] if not h.startswith("<")) + "\n"
        # append every op of the corpus history that continues this prefix
        corpus = open(os.path.join(CORPUS, "miri_last_owner.txt")).read().split("new ")
        for c in corpus:
            if c and ("new " + c).startswith(ops):
                ops = "new " + c
                break
        env = dict(ENV, MIRIFLAGS="-Zmiri-disable-isolation", HARNESS_FLUSH="1")
        p = subprocess.run(["cargo", "+nightly", "miri", "run", "--offline", "--bin", "harness", "--", "replay"],
                           cwd=HARNESS, input=ops, capture_output=True, text=True, env=env)
        print(p.stdout)
        errs = [l for l in p.stderr.splitlines() if l.startswith("error")]
        print("Miri on /repo's working tree:", errs[:2] if errs else "no error")
        return 0
    if data.get("kind") == "loom":
        ok_b, log_b, _ = build_loom()
        if not ok_b:
            print(log_b)
            return 1
        res = run_loom([data["scenario"]], "quick")[data["scenario"]]
        print("scenario %s on /repo's working tree: %s (%.1fs)" % (data["scenario"], "passes" if res[0] else "FAILS", res[1]))
        print(res[2])
        return 0
    if data.get("kind") == "inject":
        ok_h, log_h, _ = build_harness()
        build_lean(["alock-accept"])
        prim = data["cmd"].split("replay ")[1].split()[0]
        param = data["cmd"].split("replay ")[1].split()[1]
        p = subprocess.run([IBIN, "replay", prim, param, data["scenario"]], capture_output=True, text=True, env=ENV)
        print("trace on /repo's working tree:")
        print(p.stdout)
        print("implementation monitor:", p.stderr.strip() or "no violation")
        _, aout, _ = sh([ACCEPT], inp=p.stdout)
        print("acceptor (atomic-granularity Lean model):", aout.strip())
        return 0
    hist = data.get("history")
    if not hist:
        print(json.dumps(data, indent=1)[:4000])
        print("(no history to re-execute: this replay names a proof obligation or correspondence)")
        return 0
    ok_h, log_h, _ = build_harness()
    ok_l, log_l, _ = build_lean(["alock-driver"])
    ops = "\n".join(hist) + "\n"
    _, out, _ = sh([HBIN, "replay"], inp=ops)
    _, mout, _ = sh([DRIVER], inp=ops)
    print("%-28s | %-60s | %s" % ("op", "implementation", "model"))
    for a, b in zip(out.splitlines(), mout.splitlines()):
        op, _, obs = a.partition(" || ")
        flag = "" if obs.split(" M!")[0] == b else "   <-- differs"
        print("%-28s | %-60s | %s%s" % (op, obs, b, flag))
    print("reason:", data.get("what"))
    return 0


def setup():
    ok_l, log_l, dt = build_lean(["ALock", "alock-driver", "alock-accept"])
    print("lean build:", "ok" if ok_l else "FAILED", "%.1fs" % dt)
    if not ok_l:
        print(log_l)
    ok_h, log_h, dt = build_harness()
    print("harness build:", "ok" if ok_h else "FAILED", "%.1fs" % dt)
    if not ok_h:
        print(log_h)
    ok_b, log_b, dt = build_loom()
    print("loom scenarios build:", "ok" if ok_b else "FAILED", "%.1fs" % dt)
    if not ok_b:
        print(log_b)
    rc, out, err = sh(["cargo", "+nightly", "miri", "setup"], cwd=HARNESS)
    print("miri sysroot:", "ok" if rc == 0 else "FAILED (C15's Miri search will report it)")
    return 0 if ok_l and ok_h and ok_b else 1


def main():
    args = sys.argv[1:]
    if not args:
        print(__doc__)
        return 2
    if args[0] == "setup":
        return setup()
    if args[0] == "replay":
        return replay(args[1])
    prop = args[0]
    tier = os.environ.get("VERIF_TIER", "quick")
    if "--tier" in args:
        tier = args[args.index("--tier") + 1]
    seed = int(os.environ.get("VERIF_SEED", "1"))
    if prop not in PROPS:
        print("unknown property", prop)
        return 2
    if prop == "C16":
        return check_c16(tier, seed)
    return check(prop, tier, seed)


if __name__ == "__main__":
    sys.exit(main())
