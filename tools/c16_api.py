"""Public API inventory of the T-parametric types of async-lock (methods and trait impls per type),
extracted from /repo's sources.  The capability table of lean/ALock/Markers.lean accounts for every
item listed here; the C16 check compares this inventory with the committed one (tools/c16_api.json)."""
import json
import os
import re
import sys

FILES = ["src/mutex.rs", "src/rwlock.rs", "src/rwlock/futures.rs", "src/once_cell.rs",
         "src/semaphore.rs", "src/barrier.rs"]


def norm(s):
    return re.sub(r"\s+", " ", s).strip()


def inventory(repo="/repo"):
    items = []
    for f in FILES:
        src = open(os.path.join(repo, f)).read()
        # strip comments (doc comments hold example code with impl/fn lines)
        src = re.sub(r"//[^\n]*", "", src)
        lines = src.split("\n")
        i = 0
        cur = None
        while i < len(lines):
            line = lines[i]
            m = re.match(r"^(unsafe )?impl\b", line)
            if m:
                hdr = line
                j = i
                while "{" not in hdr and j + 1 < len(lines):
                    j += 1
                    hdr += " " + lines[j]
                hdr = norm(hdr.split("{")[0])
                cur = hdr
                if " for " in hdr:
                    items.append({"file": f, "impl": hdr})
                i = j + 1
                continue
            if re.match(r"^}", line):
                cur = None
            m = re.match(r"^    pub (?:const )?(?:async )?(?:unsafe )?fn (\w+)", line)
            if m and cur is not None and not m.group(1).startswith("__verif"):
                sig = line
                j = i
                while not re.search(r"[{;]\s*$", sig) and j + 1 < len(lines):
                    j += 1
                    sig += " " + lines[j]
                sig = norm(sig.rsplit("{", 1)[0])
                items.append({"file": f, "impl": cur, "fn": sig})
            i += 1
    return items


if __name__ == "__main__":
    inv = inventory(sys.argv[1] if len(sys.argv) > 1 else "/repo")
    json.dump(inv, sys.stdout, indent=1)
