#!/bin/sh
# usage: confirm_seed.sh <dir-with-patch.diff+demo.rs> <seed-id>
# Confirms a seeded change in a scratch worktree of /repo's HEAD (never in /repo itself):
# patch applies; crate builds; the unedited suite passes with it; the demo fails with it and passes without.
# On success copies the files to /verif/seeded/<seed-id>/ with meta.json. Removes the worktree.
src=$1; id=$2
wt=/tmp/seedchk-$id
export CARGO_NET_OFFLINE=true
git -C /repo worktree remove --force $wt 2>/dev/null
git -C /repo worktree add --detach $wt HEAD >/dev/null 2>&1 || exit 2
cd $wt || exit 2
res() { echo "$1"; cd /; git -C /repo worktree remove --force $wt; exit ${2:-1}; }
git apply "$src/patch.diff" || res "patch does not apply"
cargo build --offline >/dev/null 2>&1 || res "does not build"
cargo build --offline --features verif-hooks >/dev/null 2>&1 || res "does not build with verif-hooks"
out=$(cargo test --offline --no-fail-fast 2>&1)
echo "$out" | grep -q "FAILED\|failed;" && echo "$out" | grep "test result" | grep -v " 0 failed" && res "existing suite fails with the patch"
npass=$(echo "$out" | grep "^test result: ok" | sed 's/.*ok. \([0-9]*\) passed.*/\1/' | paste -sd+ | bc)
cp "$src/demo.rs" tests/demo.rs
feat=""; grep -q "__verif" tests/demo.rs && feat="--features verif-hooks"
timeout 600 cargo test --offline $feat --test demo >/tmp/seedchk-$id.with 2>&1; rc_with=$?
git checkout -- src
timeout 600 cargo test --offline $feat --test demo >/tmp/seedchk-$id.without 2>&1; rc_without=$?
base=$(git rev-parse --short HEAD)
cd /
git -C /repo worktree remove --force $wt
if [ $rc_with -ne 0 ] && [ $rc_without -eq 0 ]; then
  mkdir -p /verif/seeded/$id
  cp "$src/patch.diff" "$src/demo.rs" /verif/seeded/$id/
  [ -f "$src/notes.md" ] && cp "$src/notes.md" /verif/seeded/$id/
  cat > /verif/seeded/$id/meta.json <<EOM
{
 "breaks_property": "$(echo $id | cut -d- -f1)",
 "source": "independent sub-agent given only the property text and a scratch worktree (round 3: concurrency / memory safety)",
 "base_commit": "$base",
 "what_it_needs_to_manifest": "see notes.md",
 "confirmed_by_me": {
  "scratch_worktree": "git worktree of /repo HEAD $base under /tmp (removed)",
  "patch_applies": true,
  "existing_suite_with_patch": "pass ($npass tests incl. doc-tests)",
  "demo_with_patch": "fail (rc=$rc_with)",
  "demo_without_patch": "pass"
 }
}
EOM
  echo "CONFIRMED $id (suite: $npass passed; demo with=$rc_with without=$rc_without)"
else
  echo "NOT CONFIRMED $id: demo with patch rc=$rc_with, without rc=$rc_without"; tail -5 /tmp/seedchk-$id.with
fi
rm -f /tmp/seedchk-$id.with /tmp/seedchk-$id.without
