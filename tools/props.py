"""Static tables of the checker: which theorems, primitives, observation fields and monitors
decide each property, and the budgets of the two tiers."""

TRUSTED_BASE = [
    "Lean 4.33.0 kernel; axioms allowed in property theorems: propext, Classical.choice, Quot.sound (audited by #print axioms on every run)",
    "the Lean compiler, for the compiled model driver used by the differential run only (never for a proof)",
    "the correspondence machinery: harness/ (Rust, drives the real crate in-process), tools/check.py",
    "modelled, not verified: event-listener 5.4.2 (FIFO list, notify subtraction rule, forwarding on drop, waker replacement), event-listener-strategy 0.5.4 (NonBlocking::poll), Arc counting, pin-project-lite drop order, rustc's borrow checker",
    "polls are atomic in the poll-granular model (single-threaded histories); usize arithmetic is modelled on Nat",
]

PRIMS = {
    "sem": {
        "new_lines": ["new sem 0", "new sem 1", "new sem 2"],
        "quick": {"depth": 6, "beam": [12, 1, 4], "random_count": 300, "random_len": 40},
        "thorough": {"depth": 7, "beam": [32, 2, 5], "random_count": 20000, "random_len": 50},
    },
}

PRIMS["mutex"] = {
    "new_lines": ["new mutex"],
    "quick": {"depth": 7, "beam": [16, 1, 4], "random_count": 4000, "random_len": 40},
    "thorough": {"depth": 9, "beam": [64, 2, 6], "random_count": 60000, "random_len": 50},
}

PRIMS["rwlock"] = {
    "new_lines": ["new rwlock"],
    "quick": {"depth": 6, "beam": [16, 1, 5], "random_count": 3000, "random_len": 50},
    "thorough": {"depth": 8, "beam": [64, 2, 6], "random_count": 60000, "random_len": 60},
}

PRIMS["once"] = {
    "new_lines": ["new once"],
    "quick": {"depth": 6, "beam": [16, 1, 4], "random_count": 3000, "random_len": 40},
    "thorough": {"depth": 8, "beam": [64, 2, 6], "random_count": 60000, "random_len": 50},
}

PRIMS["barrier"] = {
    "new_lines": ["new barrier 0", "new barrier 1", "new barrier 2", "new barrier 3"],
    "quick": {"depth": 10, "beam": [8, 1, 4], "random_count": 3000, "random_len": 40},
    "thorough": {"depth": 13, "beam": [32, 2, 6], "random_count": 60000, "random_len": 60},
}

PROPS = {
    "C17": {
        "modules": ["ALock.Props.C17"],
        "prims": ["sem", "mutex", "rwlock", "once", "barrier"],
        "fields": ["out", "w", "at"],
        "monitors": ["C17"],
        "assumptions": ["polls are atomic; a settle re-polls woken futures with the waker they were last polled with and the 0.5 ms starvation test not firing (the theorems allow any waker and either outcome of the test)"],
        "partial": ["thread interleavings; threads parked in blocking forms"],
    },
    "C16": {
        "modules": ["ALock.Props.C16"],
        "prims": [],
        "fields": [],
        "monitors": [],
        "assumptions": ["the verdict of rustc for X<T>: Send/Sync depends only on whether T: Send and T: Sync (checked: every unsafe impl header mentions only Send, Sync, ?Sized; thorough tier re-probes with a second set of witness types)",
                        "the capability table (own / shr in lean/ALock/Markers.lean) lists everything the public API of each type lets a holder do; the API inventory extracted from /repo is compared with the committed one on every run"],
        "partial": ["the soundness of the capabilities themselves (e.g. that a read guard only gives &T) is the subject of the other properties, not of this table",
                    "non-generic types (Semaphore, Barrier, their guards and futures) have unconditional auto traits and are only covered by the lifetime probes"],
    },
    "C09": {
        "atomics": True,
        "modules": ["ALock.Props.C09"],
        "prims": ["barrier"],
        "fields": ["out", "w", "words", "ev", "at"],
        "monitors": ["C09"],
        "assumptions": ["polls are atomic, so the inner mutex is free between operations (the differential run checks the mutex word and lock_ops stay 0) and the slow path of the embedded lock is not exercised",
                        "generation_id wrap-around (2^64 generations) is outside the model"],
        "partial": ["thread interleavings; wait_blocking is covered by C09_blocking_is_poll (resume path = poll of a notified future), the park/unpark itself is not modelled"],
    },
    "C04": {
        "atomics": True,
        "modules": ["ALock.Props.C04"],
        "prims": ["once"],
        "fields": ["out", "words", "val", "drops", "at"],
        "monitors": ["C04"],
        "assumptions": ["initialiser futures are scripted (ok / err / panic / pending / cancelled at any await point); the blocking forms are modelled by their resume path only (C08_blocking_*_is_poll)",
                        "publication order of ptr::write and store(2, Release) is not in this model (memory-ordering table)"],
        "partial": ["'dropped exactly once' is a theorem of the model (C04_accounting, C04_dropped_once); on the implementation it is monitored (per-instance drop log) and compared as a drop count",
                    "thread interleavings of the wake-up side; the blocking forms enter through C08_blocking_*_is_poll only"],
    },
    "C08": {
        "atomics": True,
        "modules": ["ALock.Props.C08"],
        "prims": ["once"],
        "fields": ["out", "w", "words", "ev", "val", "at"],
        "monitors": ["C08"],
        "assumptions": ["polls are atomic; initialiser futures are scripted; blocking forms enter through C08_blocking_*_is_poll (resume path = poll of a notified future)"],
        "partial": ["thread interleavings; the park/unpark of the blocking forms itself is not modelled"],
    },
    "C02": {
        "atomics": True,
        "modules": ["ALock.Props.C02"],
        "prims": ["rwlock"],
        "fields": ["out", "words", "at"],
        "monitors": ["C02"],
        "assumptions": ["poll-granular theorem: every call/poll is atomic",
                        "readers-overflow aborts (> isize::MAX readers) are outside the model"],
        "partial": ["interleavings of atomic operations", "happens-before clauses (memory-ordering table)"],
    },
    "C06": {
        "atomics": True,
        "modules": ["ALock.Props.C06"],
        "prims": ["rwlock"],
        "fields": ["out", "w", "words", "ev", "at"],
        "monitors": ["C06"],
        "assumptions": ["polls are atomic (single-threaded executor)",
                        "reading: a live upgrade future that was never polled holds the lock it consumed (clause (i) says so explicitly)"],
        "partial": ["thread interleavings (deadlock under threads) are not covered by the theorems"],
    },
    "C12": {
        "modules": ["ALock.Props.C12"],
        "prims": ["rwlock"],
        "fields": ["out", "w", "words", "ev", "at"],
        "monitors": ["C12"],
        "assumptions": ["polls are atomic (single-threaded executor)"],
        "partial": ["thread interleavings"],
    },
    "C10": {
        "modules": ["ALock.Props.C10"],
        "prims": ["mutex", "sem", "rwlock"],
        "fields": ["out", "w", "words", "ev", "at"],
        "monitors": ["C10", "C05", "C06", "C07"],  # a waiter left asleep by a cancellation is a trace of it
        "assumptions": ["'as if never started' = same resources and same grants (exact accounting over live operations), not trace equality: a cancelled notified waiter causes one extra wake-up of the next waiter",
                        "polls are atomic"],
        "partial": ["interleavings where one thread drops a pending future while another releases the lock"],
    },
    "C14": {
        "modules": ["ALock.Props.C14"],
        "prims": ["mutex", "sem", "rwlock"],
        "fields": ["out", "words", "ev", "at"],
        "monitors": ["C14", "C01", "C02", "C03"],
        "assumptions": ["every try_* is one atomic call in the model; the 'never succeeds in conflict' half under interleavings is covered by the small-step models only"],
        "partial": ["interleavings"],
    },
    "C15": {
        "miri": True,
        "modules": ["ALock.Props.C15"],
        "prims": ["mutex", "sem", "rwlock"],
        "fields": ["out", "strong", "dropped", "at"],
        "monitors": ["C15"],
        "assumptions": ["Arc itself (counting, drop at zero) is modelled, not verified; the harness reads Arc::strong_count and a payload drop counter after every operation",
                        "use-after-free that does not change the count is outside this check (Miri would be the tool)"],
        "partial": ["'dropped exactly once' is tied by the payload drop counter of the harness (Mutex, RwLock); the Semaphore has no payload"],
    },
    "C11": {
        "atomics": True,
        "modules": ["ALock.Props.C11"],
        "prims": ["rwlock"],
        "fields": ["out", "words", "at"],
        "monitors": ["C11", "C02"],
        "assumptions": ["poll-granular theorem: every call/poll is atomic",
                        "'the value changes only through the converting task' is read as: only the holder of the slot can obtain write access (C02 + C11_slot)"],
        "partial": ["interleavings of atomic operations"],
    },
    "C01": {
        "atomics": True,
        "modules": ["ALock.Props.C01"],
        "prims": ["mutex"],
        "fields": ["out", "words", "at"],
        "monitors": ["C01"],
        "assumptions": [
            "poll-granular theorem: every call/poll is atomic; interleavings of atomic operations and the happens-before clause are not covered by this theorem (see partial)",
            "std off is the special case in which the starvation test never fires",
        ],
        "partial": ["interleavings of atomic operations (small-step model)", "release happens-before next acquire (memory-ordering table)"],
    },
    "C05": {
        "atomics": True,
        "modules": ["ALock.Props.C05"],
        "prims": ["mutex"],
        "fields": ["out", "w", "words", "ev", "at"],
        "monitors": ["C05"],
        "assumptions": ["polls are atomic (single-threaded executor)",
                        "blocking waiters: a parked thread is re-polled when woken (parking unparks the right thread)"],
        "partial": ["thread interleavings; lock_blocking is covered by C05_blocking_is_poll (resume path = poll of a notified future), the park/unpark itself is not modelled"],
    },
    "C13": {
        "modules": ["ALock.Props.C13"],
        "prims": ["mutex"],
        "fields": ["out", "w", "words", "ev", "at"],
        "monitors": ["C13"],
        "assumptions": ["the 0.5 ms test is scripted through hook H1 (both outcomes at every evaluation point)",
                        "polls are atomic; the try_lock clause under thread interleavings follows from the word invariant of the atomic-granularity model (C01_interleaved)"],
        "partial": ["polls are serialised (atomic), which is the property's hypothesis for part (b)"],
    },
    "C03": {
        "atomics": True,
        "modules": ["ALock.Props.C03"],
        "prims": ["sem"],
        "fields": ["out", "words", "at"],
        "monitors": ["C03"],
        "assumptions": [
            "usize wrap-around of the permit counter is outside the model: histories with init + added < 2^64",
            "compare_exchange_weak never fails spuriously on x86, so the spurious-failure branch of try_acquire is covered by the theorem only",
        ],
        "partial": ["thread interleavings: proved on the poll-granular model (atomic calls)"],
    },
    "C07": {
        "atomics": True,
        "modules": ["ALock.Props.C07"],
        "prims": ["sem"],
        "fields": ["out", "w", "words", "ev", "at"],
        "monitors": ["C07"],
        "assumptions": ["polls are atomic (single-threaded executor); a notification racing a registration is not modelled"],
        "partial": ["thread interleavings (deadlock under threads) are not covered by the theorem"],
    },
}


# Search aid (never a proof): scenarios of loomh/ run against the real crate under loom 0.7
# (all interleavings up to a preemption bound, C11 memory model). A failure is a violation with the
# scenario as replay; passing adds nothing to the proof level.
# preemption injection (harness/src/bin/inject.rs + lean/ALock/Atomic/Accept.lean): primitives per property
INJECT = {
    "C01": ["mutex"],
    "C02": ["rwlock"],
    "C03": ["sem"],
    "C04": ["once"],
    "C05": ["mutex"],
    "C06": ["rwlock"],
    "C07": ["sem"],
    "C08": ["once"],
    "C09": ["barrier"],
    "C10": ["mutex", "sem", "rwlock"],
    "C11": ["rwlock"],
    "C12": ["rwlock"],
    "C14": ["mutex", "sem", "rwlock"],
    "C15": ["mutex", "sem", "rwlock"],
    "C17": ["mutex", "sem", "rwlock", "once", "barrier"],
}
# runs per primitive: (prefix depth, number of injected calls, calls after the preempted one)
INJECT_BUDGET = {
    "quick": {"mutex": [(3, 2, 0), (2, 1, 1)], "sem": [(2, 2, 0), (1, 1, 1)], "rwlock": [(2, 1, 0), (1, 1, 1)],
              "once": [(3, 1, 0), (2, 1, 1)], "barrier": [(4, 2, 1)]},
    "thorough": {"mutex": [(4, 2, 0), (3, 2, 1)], "sem": [(3, 2, 0), (2, 2, 1)], "rwlock": [(3, 1, 0), (2, 1, 1)],
                 "once": [(4, 2, 0), (3, 1, 1)], "barrier": [(6, 2, 1)]},
}
# seeded random scenarios after the exhaustive ones: (count, longest prefix); and the deeper search
# made only when a trace was rejected and no failing schedule is known yet
# deterministic scheduler (every agent on its own thread, parked by hook H4 after each atomic
# operation; any interleaving of the calls, not only nested ones): (prim, calls started, preemptions,
# steps) per run
INJECT_SCHED = {
    "quick": {"mutex": [("mutex", 4, 2, 20)], "sem": [("sem", 3, 2, 16)], "rwlock": [("rwlock", 3, 1, 16)],
              "once": [("once", 3, 2, 16)], "barrier": [("barrier", 4, 2, 20)]},
    "thorough": {"mutex": [("mutex", 4, 3, 20)], "sem": [("sem", 4, 2, 20)], "rwlock": [("rwlock", 3, 3, 18)],
                 "once": [("once", 4, 2, 20)], "barrier": [("barrier", 5, 3, 24)]},
}
INJECT_RANDOM = {"quick": (100000, 8), "thorough": (2000000, 10)}
INJECT_SEARCH = (1500000, 10)

LOOM = {
    "C01": ["c01_try_lock", "c01_lock", "c01_arc", "c05_three", "c01_blocking", "c05_starved", "c05_starved_held", "c05_barge"],
    "C02": ["c02_try", "c02_upgrade", "c02_async", "c06_mix", "c11_downgrade_async", "c11_upgrade_async",
            "c02_blocking", "c11_blocking"],
    "C03": ["c03_add", "c03_excl", "c03_async", "c07_three", "c03_blocking", "c03_try_arc"],
    "C04": ["c04_blocking", "c04_publish", "c08_handover", "c08_blocking"],
    "C05": ["c01_lock", "c05_three", "c05_starved", "c05_starved_held", "c05_barge", "c01_blocking", "c10_mutex_cancel"],
    "C06": ["c02_async", "c06_mix", "c11_upgrade_async", "c02_blocking", "c10_rw_cancel", "c06_upgrade_race", "c06_write_race"],
    "C07": ["c03_async", "c07_three", "c03_blocking", "c10_sem_cancel", "c07_blocking_two"],
    "C08": ["c08_handover", "c04_blocking", "c08_blocking", "c08_wait_blocking_handover"],
    "C09": ["c09_barrier", "c09_blocking", "c09_cancel_race"],
    "C10": ["c10_mutex_cancel", "c10_rw_cancel", "c10_sem_cancel"],
    "C11": ["c11_downgrade", "c11_to_upgradable", "c11_downgrade_async", "c11_upgrade_async", "c11_blocking"],
    "C12": ["c02_async", "c06_mix", "c02_blocking"],
    "C13": ["c05_starved", "c05_barge"],
}
