#!/usr/bin/env python3
"""Atomic-site table: every operation on a state word (and every call that takes part in the
word protocols: inner-mutex lock/unlock, Event::notify) of /repo's sources, in source order per
function, with operands and `Ordering` arguments.  Written to lean/ALock/Generated/Atomics.lean on
every run; the interleaving models of lean/ALock/Atomic/*.lean state which table they are models of
(`shape_ok`) and which orderings their happens-before theorems need (`ord_ok`)."""
import json
import os
import re
import sys

VERIF = os.path.dirname(os.path.dirname(os.path.abspath(__file__)))
GEN = os.path.join(VERIF, "lean", "ALock", "Generated", "Atomics.lean")
FILES = ["src/mutex.rs", "src/semaphore.rs", "src/rwlock/raw.rs", "src/once_cell.rs", "src/barrier.rs"]

ATOMIC = re.compile(
    r"(?P<recv>[\w\.\(\)\s]*?)\b(?P<field>state|count)\s*\.\s*"
    r"(?P<op>compare_exchange_weak|compare_exchange|fetch_add|fetch_sub|fetch_or|fetch_and|load|store|swap)\s*\(")
CALL = re.compile(
    r"\b(?P<recv>mutex|lock_ops|no_writer|no_readers|event|active_initializers|passive_waiters)\s*\.\s*"
    r"(?P<op>unlock_unchecked|try_lock|lock_blocking|lock|notify_additional|notify|listen)\s*\(")


def strip(src):
    src = re.sub(r"//[^\n]*", "", src)
    src = re.sub(r"/\*.*?\*/", "", src, flags=re.S)
    return src


def match_paren(s, i):
    """s[i] == '(' ; returns index after the matching ')'."""
    d = 0
    while i < len(s):
        if s[i] == "(":
            d += 1
        elif s[i] == ")":
            d -= 1
            if d == 0:
                return i + 1
        i += 1
    return i


def split_args(a):
    out, d, cur = [], 0, ""
    for ch in a:
        if ch in "([{":
            d += 1
        elif ch in ")]}":
            d -= 1
        if ch == "," and d == 0:
            out.append(cur.strip())
            cur = ""
        else:
            cur += ch
    if cur.strip():
        out.append(cur.strip())
    return [re.sub(r"\s+", " ", x) for x in out]


def functions(src):
    """(name, body_start, body_end) of every fn with a body, innermost last."""
    fns = []
    for m in re.finditer(r"\bfn\s+(\w+)", src):
        i = m.end()
        d = 0
        while i < len(src):
            ch = src[i]
            if ch in "(<[":
                d += 1
            elif ch in ")>]":
                if not (ch == ">" and src[i - 1] == "-"):
                    d -= 1
            elif ch == ";" and d <= 0:
                i = -1
                break
            elif ch == "{" and d <= 0:
                break
            i += 1
        if i < 0 or i >= len(src):
            continue
        j, bd = i, 0
        while j < len(src):
            if src[j] == "{":
                bd += 1
            elif src[j] == "}":
                bd -= 1
                if bd == 0:
                    break
            j += 1
        fns.append((m.group(1), i, j))
    return fns


def impl_of(src, pos):
    """name of the type of the innermost `impl ... for T` / `impl T` block containing pos"""
    best = ""
    for m in re.finditer(r"\bimpl\b[^{;]*\{", src):
        if m.start() > pos:
            break
        j, bd = m.end() - 1, 0
        while j < len(src):
            if src[j] == "{":
                bd += 1
            elif src[j] == "}":
                bd -= 1
                if bd == 0:
                    break
            j += 1
        if m.end() <= pos <= j:
            hdr = m.group(0)
            t = hdr.split(" for ")[-1] if " for " in hdr else re.sub(r"^impl\s*(<[^>]*>)?", "", hdr)
            mm = re.search(r"([A-Z]\w+)", t)
            best = mm.group(1) if mm else ""
    return best


def sites(repo="/repo"):
    out = []
    for f in FILES:
        src = strip(open(os.path.join(repo, f)).read())
        # cut the test module
        src = src.split("#[cfg(test)]")[0]
        fns = functions(src)
        found = []
        for m in ATOMIC.finditer(src):
            end = match_paren(src, m.end() - 1)
            args = split_args(src[m.end():end - 1])
            ords = [a.replace("Ordering::", "") for a in args if a.startswith("Ordering::")]
            vals = [a for a in args if not a.startswith("Ordering::")]
            # an ordering computed into a local (`let load_ordering = if .. { Ordering::A } else { Ordering::B }`):
            # every alternative counts
            for v in list(vals):
                if re.fullmatch(r"\w*ordering\w*", v):
                    inner = [fn for fn in fns if fn[1] <= m.start() <= fn[2]]
                    body = src[max(inner, key=lambda x: x[1])[1]:m.start()] if inner else ""
                    lets = list(re.finditer(r"let\s+%s\s*=" % re.escape(v), body))
                    if lets:
                        stmt = body[lets[-1].end():]
                        d, k = 0, 0
                        while k < len(stmt):
                            if stmt[k] in "({[":
                                d += 1
                            elif stmt[k] in ")}]":
                                d -= 1
                            elif stmt[k] == ";" and d == 0:
                                break
                            k += 1
                        alts = re.findall(r"Ordering::(\w+)", stmt[:k])
                        if alts:
                            vals.remove(v)
                            ords += alts
            found.append((m.start(), m.group("field"), m.group("op"), vals, ords))
        for m in CALL.finditer(src):
            end = match_paren(src, m.end() - 1)
            args = split_args(src[m.end():end - 1])
            found.append((m.start(), m.group("recv"), m.group("op"), args, []))
        # the `listener!(event => name)` macro of event-listener registers a stack listener
        for m in re.finditer(r"listener!\(\s*(?:self|this)\s*\.\s*(\w+)\s*=>", src):
            found.append((m.start(), m.group(1), "listen", ["listener!"], []))
        for pos, recv, op, vals, ords in sorted(found):
            inner = [fn for fn in fns if fn[1] <= pos <= fn[2]]
            fn = max(inner, key=lambda x: x[1])[0] if inner else "?"
            if fn in ("__verif_snapshot", "fmt"):
                continue        # read-only observers
            out.append({"file": f, "ty": impl_of(src, pos), "fn": fn, "recv": recv, "op": op, "args": vals, "ord": ords})
    return out


def lean_str(s):
    return json.dumps(s, ensure_ascii=False)


def generate(write=True, repo="/repo"):
    ss = sites(repo)
    rows = []
    for s in ss:
        rows.append("  ⟨%s, %s, %s, %s, %s, [%s], [%s]⟩" % (
            lean_str(s["file"]), lean_str(s["ty"]), lean_str(s["fn"]), lean_str(s["recv"]), lean_str(s["op"]),
            ", ".join(lean_str(a) for a in s["args"]),
            ", ".join(".%s" % o[0].lower() + o[1:] for o in s["ord"])))
    lean = """import ALock.Atomic.Site

/-! GENERATED by tools/gen_atomics.py from /repo's working tree - do not edit.
%d sites: operations on the state words and the calls that take part in the word protocols, in
source order. -/

namespace ALock.Atomic.Gen
open ALock.Atomic

def sites : List Site := [
%s]

end ALock.Atomic.Gen
""" % (len(ss), ",\n".join(rows))
    if write:
        old = open(GEN).read() if os.path.exists(GEN) else None
        if old != lean:
            os.makedirs(os.path.dirname(GEN), exist_ok=True)
            open(GEN, "w").write(lean)
    return ss, lean


if __name__ == "__main__":
    ss, lean = generate(write="--write" in sys.argv)
    for s in ss:
        print("%-22s %-14s %-24s %-8s %-24s %-28s %s" % (s["file"], s["ty"], s["fn"], s["recv"], s["op"], s["args"], s["ord"]))
