#!/usr/bin/env python3
"""Detection matrix: apply every kept seeded change to /repo in turn, run the quick checks of the
properties that concern the files it touches, record who reports it and how. Never leaves /repo
modified. Writes seeded/MATRIX.json."""
import json, os, re, subprocess, sys
V = "/verif"
# besides the seed's own property: the checks most likely to see the same change
EXTRA = {"C01": ["C05"], "C02": ["C06"], "C03": ["C07"], "C04": ["C08"], "C05": ["C10"], "C06": ["C12"],
         "C07": ["C10"], "C08": ["C04"], "C09": [], "C10": ["C05", "C06"], "C11": ["C02"], "C12": ["C06"],
         "C13": ["C05"], "C14": ["C01"], "C15": ["C10"], "C16": [], "C17": ["C06", "C07"]}
only = sys.argv[1:]
res = {}
out_path = os.path.join(V, "seeded", "MATRIX.json")
if os.path.exists(out_path) and only:
    res = json.load(open(out_path))
for sid in sorted(os.listdir(os.path.join(V, "seeded"))):
    patch = os.path.join(V, "seeded", sid, "patch.diff")
    if not os.path.exists(patch) or (only and sid not in only):
        continue
    own = sid.split("-")[0]
    props = [own] + EXTRA.get(own, [])
    r = subprocess.run([os.path.join(V, "tools", "seedrun.sh"), sid] + props, capture_output=True, text=True)
    row = {}
    for line in r.stdout.splitlines():
        m = re.match(r"\[(C\d+)\] (VIOLATION|OK|KNOWN)(.*)", line)
        if m:
            p = m.group(1)
            if m.group(2) == "VIOLATION":
                row[p] = "no-input" if "no-failing-input-found" in m.group(3) else "replay"
            else:
                row.setdefault(p, "quiet")
    res[sid] = row
    print(sid, row, flush=True)
    json.dump(res, open(out_path, "w"), indent=1, sort_keys=True)
