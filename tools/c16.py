"""C16: ask rustc what it accepts and write lean/ALock/Generated/Markers.lean.

  * auto-trait table: harness/src/bin/markers.rs (one compile, prints `X<K>: Send/Sync` for the 21
    T-parametric public types and the four kinds K of T);
  * probe programs compiled against the crate built from /repo's working tree, one rustc call each:
    gated methods per kind, covariance per type, borrowed guards/futures outliving their lock;
    every negative probe has a positive control that must compile;
  * scan of the `unsafe impl Send/Sync` headers (bounds must only mention Send / Sync / ?Sized -
    that is what makes four kinds of T a complete case split);
  * public API inventory (tools/c16_api.py) compared with the committed one the capability table
    of lean/ALock/Markers.lean accounts for.
"""
import concurrent.futures
import json
import os
import re
import subprocess

import c16_api

VERIF = os.path.dirname(os.path.dirname(os.path.abspath(__file__)))
HARNESS = os.path.join(VERIF, "harness")
OUTDIR = os.path.join(VERIF, "build", "c16")
GEN = os.path.join(VERIF, "lean", "ALock", "Generated", "Markers.lean")
API_JSON = os.path.join(VERIF, "tools", "c16_api.json")
REPO = "/repo"
ENV = dict(os.environ, CARGO_NET_OFFLINE="true")

TYPES = ["Mutex", "MutexGuard", "MutexGuardArc", "Lock", "LockArc", "RwLock", "RwLockReadGuard",
         "RwLockReadGuardArc", "RwLockUpgradableReadGuard", "RwLockUpgradableReadGuardArc",
         "RwLockWriteGuard", "RwLockWriteGuardArc", "Read", "ReadArc", "UpgradableRead",
         "UpgradableReadArc", "Write", "WriteArc", "Upgrade", "UpgradeArc", "OnceCell"]
HAS_LT = {"MutexGuard", "Lock", "RwLockReadGuard", "RwLockUpgradableReadGuard", "RwLockWriteGuard",
          "Read", "ReadArc", "UpgradableRead", "UpgradableReadArc", "Write", "WriteArc", "Upgrade"}
KINDS = {"sendsync": (True, True), "sendonly": (True, False), "synconly": (False, True),
         "neither": (False, False)}
KIND_TY = {"sendsync": "SendSync", "sendonly": "SendOnly", "synconly": "SyncOnly", "neither": "Neither"}

PRELUDE = """#![allow(dead_code, unused_imports, unused_variables)]
use async_lock::futures::*;
use async_lock::*;
use std::cell::Cell;
use std::marker::PhantomData;
use std::sync::Arc;
pub struct SendSync(u8);
pub struct SendOnly(Cell<u8>);
pub struct SyncOnly(PhantomData<std::sync::MutexGuard<'static, u8>>);
pub struct Neither(PhantomData<*const u8>);
"""

METHODS = {
    "mutexGuardSource": "pub fn probe(g: &MutexGuard<'static, %s>) { let _ = MutexGuard::source(g); }",
    "mutexGuardArcSource": "pub fn probe(g: &MutexGuardArc<%s>) { let _ = MutexGuardArc::source(g); }",
}

# how to get each borrowed guard / future from a lock `l` (decl, expr)
BORROWED = {
    "MutexGuard": ("Mutex::new(0u8)", "l.try_lock().unwrap()"),
    "Lock": ("Mutex::new(0u8)", "l.lock()"),
    "RwLockReadGuard": ("RwLock::new(0u8)", "l.try_read().unwrap()"),
    "RwLockUpgradableReadGuard": ("RwLock::new(0u8)", "l.try_upgradable_read().unwrap()"),
    "RwLockWriteGuard": ("RwLock::new(0u8)", "l.try_write().unwrap()"),
    "Read": ("RwLock::new(0u8)", "l.read()"),
    "UpgradableRead": ("RwLock::new(0u8)", "l.upgradable_read()"),
    "Write": ("RwLock::new(0u8)", "l.write()"),
    "Upgrade": ("RwLock::new(0u8)", "RwLockUpgradableReadGuard::upgrade(l.try_upgradable_read().unwrap())"),
    "ReadArc": ("Arc::new(RwLock::new(0u8))", "l.read_arc()"),
    "UpgradableReadArc": ("Arc::new(RwLock::new(0u8))", "l.upgradable_read_arc()"),
    "WriteArc": ("Arc::new(RwLock::new(0u8))", "l.write_arc()"),
    "SemaphoreGuard": ("Semaphore::new(1)", "l.try_acquire().unwrap()"),
    "Acquire": ("Semaphore::new(1)", "l.acquire()"),
    "BarrierWait": ("Barrier::new(1)", "l.wait()"),
    "OnceCell::get": ("OnceCell::<u8>::from(0u8)", "l.get().unwrap()"),
    "OnceCell::wait": ("OnceCell::<u8>::new()", "l.wait()"),
    "OnceCell::get_or_init": ("OnceCell::<u8>::new()", "l.get_or_init(|| async { 0u8 })"),
    "OnceCell::set": ("OnceCell::<u8>::new()", "l.set(0u8)"),
    "MutexGuard::source": ("Mutex::new(0u8)", "MutexGuard::source(&l.try_lock().unwrap())"),
}


def sh(cmd, cwd=None):
    p = subprocess.run(cmd, cwd=cwd, capture_output=True, text=True, env=ENV)
    return p.returncode, p.stdout, p.stderr


def crate_rmeta():
    """the async-lock artifact cargo built for the harness (from /repo's working tree)"""
    rc, out, err = sh(["cargo", "build", "--offline", "--message-format=json"], cwd=HARNESS)
    if rc != 0:
        raise RuntimeError("harness build failed:\n" + err[-3000:])
    rmeta = None
    for line in out.splitlines():
        try:
            m = json.loads(line)
        except ValueError:
            continue
        if m.get("reason") == "compiler-artifact" and m["target"]["name"] in ("async_lock", "async-lock"):
            for f in m["filenames"]:
                if f.endswith(".rmeta"):
                    rmeta = f
    if not rmeta:
        raise RuntimeError("async-lock artifact not found in cargo output")
    return rmeta


def ty_with(x, arg, lt="'static"):
    return "%s<%s, %s>" % (x, lt, arg) if x in HAS_LT else "%s<%s>" % (x, arg)


def probes():
    """name -> (source, expectation) ; expectation: 'any' (the verdict is a fact), 'pass' (control),
    'fail' handled as fact too (outlives)."""
    ps = {}
    for m, tmpl in METHODS.items():
        for k, kt in KIND_TY.items():
            ps["method__%s__%s" % (m, k)] = PRELUDE + tmpl % kt + "\n"
    for x in TYPES:
        # the guard's own lifetime 'g is separate, otherwise T: 'static makes the question vacuous
        a = ty_with(x, "&'b u8", "'g")
        b = ty_with(x, "&'a u8", "'g")
        ps["covariant__%s" % x] = PRELUDE + "pub fn probe<'g, 'a, 'b: 'a>(x: %s) -> %s { x }\n" % (a, b)
        ps["covariantctl__%s" % x] = PRELUDE + "pub fn probe<'g, 'a, 'b: 'a>(x: %s) -> %s { x }\n" % (a, a)
    for name, (decl, expr) in BORROWED.items():
        n = name.replace("::", "_")
        ps["outlives__%s" % n] = PRELUDE + "pub fn probe() { let g; { let l = %s; g = %s; } drop(g); }\n" % (decl, expr)
        ps["outlivesctl__%s" % n] = PRELUDE + "pub fn probe() { let l = %s; let g; { g = %s; } drop(g); }\n" % (decl, expr)
    return ps


def run_probe(args):
    name, src, rmeta = args
    path = os.path.join(OUTDIR, "probes", name + ".rs")
    with open(path, "w") as fh:
        fh.write(src)
    deps = os.path.dirname(rmeta)
    cmd = ["rustc", "--edition", "2021", "--crate-type", "lib", "--emit=metadata",
           "--error-format=json", "-A", "warnings", "-L", "dependency=" + deps,
           "--extern", "async_lock=" + rmeta, "-o", os.path.join(OUTDIR, "probes", name + ".rmeta"), path]
    p = subprocess.run(cmd, capture_output=True, text=True)
    errs = []
    for line in p.stderr.splitlines():
        try:
            m = json.loads(line)
        except ValueError:
            continue
        if m.get("level") == "error" and not m["message"].startswith("aborting"):
            errs.append(((m.get("code") or {}).get("code"), m["message"]))
    return name, p.returncode == 0, errs, " ".join(cmd)


EXPECTED_ERR = {
    "method": lambda c, msg: c == "E0277",
    "covariant": lambda c, msg: "lifetime may not live long enough" in msg,
    "outlives": lambda c, msg: c in ("E0597", "E0716", "E0505", "E0515"),
}


def impl_scan():
    bad = []
    n = 0
    for f in c16_api.FILES:
        src = open(os.path.join(REPO, f)).read()
        src = re.sub(r"//[^\n]*", "", src)
        for m in re.finditer(r"unsafe\s+impl\s*(<[^{]*?>)?\s*(Send|Sync)\s+for\s+([^{]+)\{", src):
            n += 1
            gen = m.group(1) or ""
            where = m.group(3).split("where", 1)[1] if "where" in m.group(3) else ""
            for part in re.split(r"[,<>]", gen[1:-1] if gen else ""):
                if ":" in part:
                    for b in part.split(":", 1)[1].split("+"):
                        if b.strip() not in ("Send", "Sync", "?Sized", ""):
                            bad.append(re.sub(r"\s+", " ", m.group(0))[:-1].strip())
            if where.strip():
                for b in re.split(r"[+,:]", where):
                    if b.strip() not in ("Send", "Sync", "?Sized", "", "T"):
                        bad.append(re.sub(r"\s+", " ", m.group(0))[:-1].strip())
        for m in re.finditer(r"impl\s*(<[^{]*?>)?\s*!\s*(Send|Sync)\s+for", src):
            bad.append("negative impl: " + m.group(0))
    return n, sorted(set(bad))


def api_items():
    gen = [i for i in c16_api.inventory(REPO)
           if not re.search(r"\b(Semaphore\w*|Barrier\w*|Acquire\w*|State)\b", i["impl"].split(" for ")[-1])]
    return sorted("%s | %s | %s" % (i["file"], i["impl"], i.get("fn", "")) for i in gen)


def lean_bool(b):
    return "true" if b else "false"


def generate(write=True):
    os.makedirs(os.path.join(OUTDIR, "probes"), exist_ok=True)
    rmeta = crate_rmeta()
    facts = {"auto": {}, "callable": {}, "covariant": {}, "outlives": [], "borrowed": [],
             "broken": [], "probe_cmds": {}, "probe_errs": {}}
    # auto traits
    rc, out, err = sh([os.path.join(HARNESS, "target", "debug", "markers")])
    if rc != 0:
        raise RuntimeError("markers binary failed: " + err[-2000:])
    for line in out.splitlines():
        w = line.split()
        if len(w) == 5 and w[0] == "auto":
            if w[1] == "KIND":
                if (w[3] == "1", w[4] == "1") != KINDS[w[2]]:
                    facts["broken"].append("kind witness %s is not %s" % (w[2], KINDS[w[2]]))
            else:
                facts["auto"][(w[1], w[2])] = (w[3] == "1", w[4] == "1")
    for x in TYPES:
        for k in KINDS:
            if (x, k) not in facts["auto"]:
                facts["broken"].append("no auto-trait row for %s %s" % (x, k))
    # probes
    ps = probes()
    with concurrent.futures.ThreadPoolExecutor(max_workers=16) as ex:
        res = list(ex.map(run_probe, [(n, s, rmeta) for n, s in sorted(ps.items())]))
    verdict = {}
    for name, ok, errs, cmd in res:
        verdict[name] = ok
        facts["probe_cmds"][name] = cmd
        facts["probe_errs"][name] = errs
        cls = name.split("__")[0]
        if cls.endswith("ctl"):
            if not ok:
                facts["broken"].append("control %s does not compile: %s" % (name, errs[:1]))
        elif not ok:
            if not errs or not all(EXPECTED_ERR[cls](c, msg) for c, msg in errs):
                facts["broken"].append("probe %s fails for an unexpected reason: %s" % (name, errs[:2]))
    for m in METHODS:
        for k in KINDS:
            facts["callable"][(m, k)] = verdict["method__%s__%s" % (m, k)]
    for x in TYPES:
        facts["covariant"][x] = verdict["covariant__%s" % x]
    for name in BORROWED:
        n = name.replace("::", "_")
        facts["borrowed"].append(n)
        if verdict["outlives__%s" % n]:
            facts["outlives"].append(n)
    nimpl, foreign = impl_scan()
    facts["impl_headers"] = nimpl
    facts["foreign"] = foreign
    # API inventory
    items = api_items()
    facts["api_items"] = len(items)
    committed = json.load(open(API_JSON)) if os.path.exists(API_JSON) else []
    facts["api_added"] = sorted(set(items) - set(committed))
    facts["api_removed"] = sorted(set(committed) - set(items))

    def kind(k):
        s, y = KINDS[k]
        return "⟨%s, %s⟩" % (lean_bool(s), lean_bool(y))

    acc = []
    for x in TYPES:
        for k in KINDS:
            s, y = facts["auto"].get((x, k), (True, True))  # a missing row is also listed as broken
            if s:
                acc.append("(.%s, .send, %s)" % (x, kind(k)))
            if y:
                acc.append("(.%s, .sync, %s)" % (x, kind(k)))
    call = ["(.%s, %s)" % (m, kind(k)) for (m, k), v in sorted(facts["callable"].items()) if v]
    cov = [".%s" % x for x in TYPES if facts["covariant"][x]]

    def strs(l):
        return "[" + ", ".join(json.dumps(s, ensure_ascii=False) for s in l) + "]"

    def chunks(l, n=4):
        return ",\n   ".join(", ".join(l[i:i + n]) for i in range(0, len(l), n))

    lean = """import ALock.Markers

/-! GENERATED by tools/c16.py from rustc's verdicts on /repo's working tree - do not edit.
%d auto-trait rows, %d probe programs, %d `unsafe impl Send/Sync` headers scanned. -/

namespace ALock.Markers.Gen
open ALock.Markers

def acceptedTable : List (Ty × Tr × Kind) :=
  [%s]

def callableTable : List (Meth × Kind) :=
  [%s]

def covariantTable : List Ty :=
  [%s]

def facts : Facts where
  accepted x tr k := acceptedTable.contains (x, tr, k)
  callable m k := callableTable.contains (m, k)
  covariant x := covariantTable.contains x
  outlives := %s
  borrowed := %s
  broken := %s
  foreignBounds := %s

end ALock.Markers.Gen
""" % (len(facts["auto"]), len(ps), nimpl, chunks(acc), chunks(call), ", ".join(cov),
       strs(facts["outlives"]), strs(facts["borrowed"]), strs(facts["broken"]), strs(foreign))
    if write:
        old = open(GEN).read() if os.path.exists(GEN) else None
        if old != lean:
            with open(GEN, "w") as fh:
                fh.write(lean)
    facts["lean"] = lean
    return facts


ALT_KIND_TY = {"sendsync": "String", "sendonly": "std::sync::mpsc::Receiver<u8>",
               "synconly": "SyncOnly2", "neither": "std::rc::Rc<u8>"}
ASSERT = """pub struct SyncOnly2(std::sync::MutexGuard<'static, u8>);
fn assert_send<X: ?Sized + Send>() {}
fn assert_sync<X: ?Sized + Sync>() {}
"""


def marker_probe(x, tr, k, alt=False):
    kt = (ALT_KIND_TY if alt else KIND_TY)[k]
    return PRELUDE + ASSERT + "pub fn probe() { assert_%s::<%s>(); }\n" % (tr, ty_with(x, kt))


def cross_check(rmeta, auto):
    """thorough tier: every row of the auto-trait table again, as one rustc call per row with a
    plain `assert_send::<X<K>>()`, for the kind witnesses of the table and for a second set of
    witnesses (std types) - the verdict must depend on the kind only."""
    jobs = []
    for x in TYPES:
        for k in KINDS:
            for tr in ("send", "sync"):
                for alt in (False, True):
                    jobs.append(("row%s__%s__%s__%s" % ("alt" if alt else "", x, tr, k),
                                 marker_probe(x, tr, k, alt), rmeta))
    with concurrent.futures.ThreadPoolExecutor(max_workers=16) as ex:
        res = list(ex.map(run_probe, jobs))
    diffs = []
    for name, ok, errs, cmd in res:
        _, x, tr, k = name.split("__")
        want = auto[(x, k)][0 if tr == "send" else 1]
        if ok != want or (not ok and not all(c == "E0277" for c, _ in errs)):
            diffs.append({"probe": name, "rustc_accepts": ok, "table": want, "errors": errs[:2], "cmd": cmd})
    return len(res), diffs


if __name__ == "__main__":
    import sys
    f = generate()
    if "--write-api" in sys.argv:
        json.dump(api_items(), open(API_JSON, "w"), indent=0)
    print(json.dumps({k: (v if not isinstance(v, dict) else {str(a): b for a, b in v.items()})
                      for k, v in f.items() if k not in ("lean", "probe_cmds", "probe_errs")}, indent=1))
