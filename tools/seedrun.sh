#!/bin/sh
# usage: seedrun.sh <patch-or-seed-id|revert:COMMIT> <ID>...   apply to /repo, run the quick checks, undo.
# Never leaves /repo modified; evidence written during the run is restored from git afterwards.
cd /verif || exit 1
if [ -n "$(git -C /repo status --porcelain)" ]; then echo "/repo is dirty"; exit 2; fi
p=$1; shift
case "$p" in
  revert:*) git -C /repo show "${p#revert:}" | git -C /repo apply -R || exit 2 ;;
  *) [ -f "$p" ] || p=/verif/seeded/$p/patch.diff; git -C /repo apply "$p" || exit 2 ;;
esac
for i in "$@"; do
  timeout 1500 python3 tools/check.py $i --tier quick 2>&1 | grep -E "^(VIOLATION|OK|KNOWN)" | sed "s/^/[$i] /"
done
git -C /repo checkout -- .
git -C /verif checkout -- evidence lean/ALock/Generated 2>/dev/null
