#!/usr/bin/env python3
"""Regenerates MANIFEST.json from the claims table below (kept next to props.py)."""
import json, os, sys
VERIF = os.path.dirname(os.path.dirname(os.path.abspath(__file__)))
sys.path.insert(0, os.path.join(VERIF, "tools"))
from props import PROPS
from claims import CLAIMS, NOT_APPLICABLE, HOOK_COMMITS

ids = [json.loads(l)["id"] for l in open(os.path.join(VERIF, "properties.jsonl"))]
checks = []
for i in ids:
    if i not in CLAIMS:
        continue
    assert i in PROPS, i
    c = CLAIMS[i]
    checks.append({
        "property_id": i,
        "quick_cmd": "python3 tools/check.py %s --tier quick" % i,
        "thorough_cmd": "python3 tools/check.py %s --tier thorough" % i,
        "evidence_file": "/verif/evidence/%s.json" % i,
        "replay_cmd_template": "python3 tools/check.py replay {path}",
        "engine": "lean+differential",
        "level_claimed": {"category": "proof", "text": c["text"], "design_ref": "DESIGN.md §4 " + i},
        "level_note": c["note"],
        "technique": c.get("technique", "Lean 4 theorems (invariants by induction over all histories) + differential correspondence check between the model's executable definitions and the real crate"),
    })
m = {
    "version": 1,
    "setup_cmd": "python3 tools/check.py setup",
    "hooks": {
        "guard": "cargo feature verif-hooks",
        "enable": "path dependency with features=[\"verif-hooks\"] (harness/Cargo.toml)",
        "baseline_off_cmd": "cd /repo && cargo test --workspace --no-fail-fast --offline",
        "source_commits": HOOK_COMMITS,
        "add_only": True,
    },
    "engines": [{
        "name": "lean+differential", "path": "tools/check.py",
        "serves_properties": [c["property_id"] for c in checks],
        "kind_free_text": "Lean 4 proofs about an executable model (lean/ALock) + differential harness (harness/) running the model and the real crate on the same histories",
    }],
    "checks": checks,
    "notes": "see DESIGN.md; known_findings.json lists the genuine defects repaired by fix: commits in /repo",
    "not_applicable": [{"property_id": i, "reason": NOT_APPLICABLE.get(i, "check under construction; will be claimed")}
                       for i in ids if i not in CLAIMS],
}
json.dump(m, open(os.path.join(VERIF, "MANIFEST.json"), "w"), indent=1)
print("claimed:", [c["property_id"] for c in checks])
