"""What MANIFEST.json says about each claimed property (level text and trusted-base note)."""

HOOK_COMMITS = ["3294ba2", "bc53046", "012ac7c", "289a0b3"]

NOT_APPLICABLE = {}

_ATOM = (" Second model (lean/ALock/Atomic): one step = one atomic operation on the state word, any number of threads, "
         "EVERY interleaving; tied to the code by a site table (operations on the word with operands and Orderings, in source "
         "order per function) extracted from /repo's sources on every run - theorem *_shape_ok states the table is the one "
         "the model has steps for, *_ord_ok that the orderings at the synchronising sites are at least Acquire/Release.")

_CALLS = (" Static tie for the wake-up side: every atomic operation, inner-mutex call and listen/notify call of the file, "
          "function by function in source order, is extracted from /repo's sources on every run and compared with the "
          "sequence the model was written against (theorem %s_calls_ok); an added, removed, moved or re-targeted "
          "notify fails it.")

_ATLOG = (" The atomic-operation log is part of the comparison: under hook H3 the crate's atomics record every operation "
          "on the state words (kind, operands, Orderings, value returned); the model lists, for every branch of every "
          "step, the atomic operations it stands for (lean/ALock/AtomTrace*.lean) and the two sequences are compared after "
          "every operation (field at). For Mutex, Semaphore and RwLock it is a theorem (C01_poll_atoms, C03_step_atoms / "
          "C03_run_atoms, C02_step_atoms / C02_run_atoms, C11_conv_atoms) that replaying the listed operations on the old "
          "word(s) is consistent (each sees its predecessor's value, a CAS succeeds exactly on its expected value) and "
          "yields the model's new word(s), for every state and operation.")

_INJ = (" Behavioural tie of the interleaving model (preemption injection): under hook H4 the harness preempts one call of "
        "the real crate immediately before or after any of its atomic operations (at one or two such points) and runs complete calls of other agents there "
        "(exactly the schedule 'A preempted after k atomic operations, B runs, A resumes', deterministically, for every "
        "prefix history up to a depth, every call, every k, every injected call, followed by seeded random scenarios, and by a deterministic scheduler that runs each agent on its own thread, parks it after every atomic operation and enumerates every interleaving of a bounded number of calls and preemptions); the recorded atomic operations, "
        "attributed to their agents, are replayed in an acceptor of the atomic-granularity model "
        "(lean/ALock/Atomic/Accept.lean): each must be the step the agent's program counter allows and must have "
        "observed what the model says (value returned, CAS success), each return value must match the agent's final "
        "program counter. Theorem *_accepted: an accepted trace is a run of the model, so the interleaving theorems "
        "hold of it. A rejected trace = the code's control flow between atomic sites (retry loops, early returns) is not "
        "the model's; the harness's own monitors (two guards alive, permits over-issued, try_* failing on an idle lock, "
        "a reader admitted past a pending writer) turn it into a concrete failing schedule.")

_INJW = (" Wake-ups under preemption (search on the implementation, the property itself as oracle): under hook H4 one call "
         "of the real crate is preempted before each of its atomic operations by complete calls of other agents (every "
         "prefix history up to a depth, every call, every preemption point, every injected call, optionally one more call "
         "afterwards; completed futures dropped or kept alive); then the scenario is drained - woken futures re-polled, "
         "guards released one by one - and no future may remain pending with nothing held and nobody woken, within a "
         "bounded number of re-polls. The recorded atomic operations of every scenario are also replayed in the acceptor "
         "of the atomic-granularity model.")

_SEARCH = (" Beyond the theorems (search aid, not part of the proof level): small concurrent scenarios of this property "
           "are run against the real crate under loom 0.7 (all interleavings up to a preemption bound, C11 memory model; "
           "the protected payload is a loom UnsafeCell, so an exclusion failure or a missing happens-before edge is a "
           "causality violation); a failing scenario is reported as a violation with the scenario as replay.")

_TIE = ("The model is tied to /repo on every run: the same step functions (compiled) and the real crate are run on "
        "exhaustive (state-pruned DFS) and seeded random histories and their observations compared after every operation; "
        "the property's monitor is evaluated on the implementation's traces.")

CLAIMS = {
    "C17": {
        "text": "For each of the five primitives a potential phi (outstanding wake-ups + weights of the polled, uncompleted futures; for the OnceCell also the listeners a successful initialisation will wake) is proved to decrease strictly with EVERY re-poll of a pending future whose waker was called - any waker, either outcome of the Mutex's 0.5 ms test, any outcome of a woken OnceCell caller's initialiser - at every reachable state of the poll-granular models (theorems C17_*_step). Hence any sequence of such re-polls, in any order, with nothing released, started or cancelled in between, has length at most woken + 2*pending (Semaphore, Barrier), woken + 4*pending (Mutex), woken + 6*pending (RwLock), woken + 2*pending + listeners (OnceCell) (theorems C17_sem, C17_mutex, C17_rwlock, C17_once, C17_barrier): no wake-up cycle exists. " + _TIE + " The harness runs the woken futures to quiescence (settle) as a probe at every new state of the exhaustive DFS, from the most contended states found (beam search) and inside the random histories; the number of polls and the wakers called are compared with the model's, and the bound polls <= 5*pending is evaluated on the implementation at every settle." + _INJW,
        "note": "PARTIAL: atomic polls (no thread interleavings, no parked threads). woken <= pending (every outstanding wake-up is the owner of its own notified listener) is proved for all five primitives, giving bounds in pending alone (C17_sem_pending: n <= 3*pending, C17_mutex_pending: 5*pending, C17_rwlock_pending: 7*pending, C17_once_pending: 4*pending, C17_barrier_pending: 3*pending).",
    },
    "C16": {
        "text": "The property's domain is a finite table - (public T-parametric type, Send / Sync / covariance / outlives question, kind of T among Send+Sync, Send only, Sync only, neither). rustc's verdict for every row is regenerated from /repo's working tree on every run (one table binary + 90 probe programs, each negative probe with a compiling control) into lean/ALock/Generated/Markers.lean. Lean theorems over the whole table: if rustc accepts X<T>: Send (Sync) for a kind of T, then nothing reachable by owning (sharing) an X<T> - through guard conversions, future outputs, source(), the Arc it holds - needs T: Send or T: Sync unless T has it (C16_markers; Sound is reachability in the capability graph of the public API, decided by a closed-set check the kernel evaluates); write/upgradable guards and the write/upgrade futures need both (C16_write_needs_both, from the model); source() is callable on a Sync guard only for T: Send (C16_source); covariant types never lead to &mut T (C16_variance); no borrowed guard or future outlives its lock (C16_lifetimes); marker bounds mention only Send/Sync so four kinds are a complete case split (C16_complete).",
        "note": "The capability table is hand-written from the public API (API inventory of /repo compared on every run); rustc's trait solver and borrow checker are trusted. Found and fixed with it: MutexGuard::source on a Sync-only T (fix: 3a49498); RwLockWriteGuard Send for T: !Sync (fix: a67ffdf).",
        "technique": "Lean 4 theorems (reachability in a capability graph; decide over the complete finite table) about a table regenerated from rustc's verdicts on /repo on every run",
    },
    "C01": {
        "text": "Exclusion (at most one guard; the state word equals guards + 2*starved operations; a guard is only handed out when none is alive) is a Lean theorem over every finite history of the poll-granular Mutex model: every mix of lock/lock_arc/try_lock/try_lock_arc, cancellation at any point, the 0.5 ms branch taken or not at every evaluation point. " + _TIE + " Compared fields: outcome and state word." + _ATOM + " Theorems: C01_interleaved (exclusion and the word invariant under every interleaving, whatever the orderings) and C01_hb (release/acquire views: whoever holds the mutex has every earlier critical section in its view, i.e. release happens-before the next acquire, given the orderings of the table)." + _ATLOG + _SEARCH + _INJ,
        "note": "PARTIAL: the interleaving model covers the word protocol; the control flow between its sites is tied to the code by the poll-granular differential run and, under preemption, by the acceptor (bounded: one preempted call, up to two injected calls, same thread); memory model = release/acquire with RMW release sequences. event-listener is modelled, not verified.",
    },
    "C02": {
        "text": "Exclusion (at most one write guard and then no other guard; at most one upgradable guard) is a Lean theorem over every finite history of the poll-granular RwLock model over the full alphabet (start/poll/cancel of read, upgradable_read, write and upgrade futures, borrowed and Arc; try_*; upgrade; try_upgrade; the three downgrades; guard drops). The invariant WordInv determines both words exactly: mutex.state = (W+U+PW+PU) + 2*starved, state = (W+PW+PU) + 2*(R+U), W+U+PW+PU <= 1, a write guard is alone. " + _TIE + " Compared fields: outcome and both state words." + _ATOM + " Theorems: C02_interleaved (at most one writer, a writer excludes every shared access - including a write guard in the middle of downgrade_write -, at most one upgradable guard, under every interleaving incl. the states inside an operation), C02_interleaved_word, C02_hb (release/acquire views over the same agents: every write section happens-before every later access, every read section before every later write guard; the ten synchronising orderings come from the table, C02_ord_ok)." + _ATLOG + _SEARCH + _INJ,
        "note": "PARTIAL: the interleaving models cover the word protocol; the control flow between sites under preemption is tied by the acceptor (bounded: one preempted call, up to two injected calls, same thread); happens-before (C02_hb) in the release/acquire fragment. Reader-count overflow aborts are outside the models.",
    },
    "C11": {
        "text": "The slot invariant (at most one of write guard / upgradable guard / writer waiting for readers / pending upgrade, at every state of every history), the fact that try_upgrade, upgrade() and downgrade_to_upgradable never touch the inner mutex, and 'a pending upgrade excludes writers and upgradable readers' are Lean theorems on the poll-granular RwLock model. " + _TIE + " Compared fields: outcome and both state words; monitors C11 (slot word) and C02." + _ATOM + " Theorems: C11_interleaved_slot (the inner mutex never has two holders, under every interleaving), C11_interleaved_downgrade (between the two atomic steps of downgrade_write, and while an upgradable guard or a pending upgrade exists, there is no writer and the inner mutex is not available)." + _ATLOG + _SEARCH + _INJ,
        "note": "PARTIAL: atomic calls; the value clause is derived from exclusive access (C02) rather than from a payload model.",
    },
    "C06": {
        "text": "All four clauses (nothing pending with no guard alive; no read() pending without writer; no upgradable_read() pending with a free slot; no writer/upgrade pending once no reader is left) are Lean theorems over every finite history of the poll-granular RwLock model (full alphabet, borrowed and Arc, cancellation at every point, completed futures kept alive). They rest on three inductive invariants proved for every reachable state: WordInv (who holds what), RegInv (which future is registered on which of the three events; no stale listeners) and WakeInv (a notified listener's owner has an outstanding wake-up; the inner mutex, no_writer and no_readers each hold a notification whenever a registered waiter could proceed). " + _TIE + " Compared fields: outcome, wakers called, both words, listener counts and notified flags of all three events." + (_CALLS % "C06") + _ATLOG + _SEARCH + _INJW,
        "note": "PARTIAL: polls are atomic in the model; thread interleavings are not covered by the theorems. event-listener is modelled, not verified. Reading: a never-polled live upgrade future counts as a holder.",
    },
    "C09": {
        "text": "For every n and every finite history of the poll-granular Barrier model (any number of waits, spurious polls, new wakers, cancellation at any point, any number of generations): arrivals = generations * max(n,1) + count with count < max(n,1) and exactly one leader per completed generation (C09_accounting); a follower returns only when its arrival generation is complete and the leader is the arrival that completes it (C09_no_early); at quiescence no live wait of a completed generation is pending (C09_release); a wait of the current generation never completes whatever notification reaches it (C09_isolation); the code path on which a thread parked in wait_blocking resumes equals the poll of a notified wait() future (C09_blocking_is_poll), so the same theorems cover the blocking form - Lean theorems from the invariant BInv. " + _TIE + " Compared fields: outcome (leader/follower), wakers called, inner mutex word, count, generation, listener counts." + (_CALLS % "C09") + _SEARCH + _INJW,
        "note": "PARTIAL: atomic polls (the embedded mutex's slow path and thread interleavings are not exercised by this model); wait_blocking not modelled.",
    },
    "C10": {
        "text": "The state words of Mutex, Semaphore and RwLock are proved to account exactly for the operations that are alive, and every registered listener to belong to a live operation, at every state of every history in which futures are dropped at any moment (never polled, pending, notified, completed). Drain theorems: once no future and no guard is alive the words are zero / every issued permit is back, all event queues are empty, and try_lock / try_write / try_acquire (all permits) succeed. " + _TIE + _ATLOG + _SEARCH + _INJ,
        "note": "PARTIAL: 'as if never started' is claimed as exact accounting and equal grants, not trace equality; atomic calls; the thread race 'drop a pending future while another thread releases' is not covered by the theorems.",
    },
    "C12": {
        "text": "At every quiescent state of every history with a polled pending write() or a pending upgrade and no write/upgradable guard alive, the writer bit is set (theorem C12); in any state with the bit set try_read fails and polls of read() futures return Pending; nothing a reader does changes the bit - Lean theorems on the poll-granular RwLock model. " + _TIE + " The harness additionally probes try_read on the implementation at every such quiescent point." + _ATLOG + _SEARCH + _INJ,
        "note": "PARTIAL: atomic polls; the 'lasts until' clause is stated as: only a writer's release/downgrade or the cancellation of the waiting writer can clear the bit.",
    },
    "C14": {
        "text": "Exact characterisations, at every reachable state of the three models, of when each try_* succeeds (try_lock: no guard and nobody starved; try_read: no write guard / waiting writer / pending upgrade; try_upgradable_read: slot free and nobody starved; try_write: that and no reader; try_upgrade: no other reader; try_acquire: a permit is available), that none of them registers a listener, and that all succeed when nothing is alive - Lean theorems (corollaries of the word invariants). " + _TIE + " try_* ops are part of the exhaustive alphabet, so they probe the implementation after every prefix." + _ATLOG + _INJ,
        "note": "PARTIAL: atomic calls in the poll-granular model; 'never succeeds in conflict' under interleavings is C14_accepted_* (the interleaving theorems applied to the recorded, accepted executions of the crate under preemption injection - bounded: one preempted call, up to two injected calls).",
    },
    "C15": {
        "text": "In the models the strong count is a counter updated exactly where the code clones, moves or drops the Arc; Lean theorems state that after every history (Mutex, Semaphore, RwLock; conversions, forget, cancellation at any point, handles cloned and dropped down to zero) it equals user handles + owned guards alive + owning futures (lock_arc until completion, UpgradeArc until completion or drop, acquire_arc until drop), hence never over-releases, and is zero exactly when none is left. " + _TIE + " Compared fields: outcome, Arc::strong_count, and the payload's drop counter (dropped exactly once)." + " Search aid: the harness replays last-owner histories and random ones under Miri (use-after-free, leaks)." + _ATLOG + _INJ,
        "note": "Arc is modelled, not verified. A memory error that leaves the count unchanged (e.g. unlocking through a dangling reference after the Arc was freed) is outside the theorems; the Miri run searches for it.",
    },
    "C03": {
        "text": "Conservation, no over-issue, exactness of try_acquire and the per-operation permit deltas are Lean theorems over every initial count and every finite operation sequence of the poll-granular Semaphore model (induction on the history). " + _TIE + " Compared fields: outcome and permit counter." + _ATOM + " Theorems: C03_interleaved_conservation / _no_overissue (racing try_acquire CAS loops incl. spurious weak-CAS failures, concurrent add_permits, drops, forgets)." + _ATLOG + _SEARCH + _INJ,
        "note": "PARTIAL: usize wrap-around outside the models (Nat); the interleaving model covers the counter protocol, not the wake-up side.",
    },
    "C04": {
        "text": "Lean theorems over every finite history of the poll-granular OnceCell model (any number of wait/get_or_init/get_or_try_init/set callers, initialisers resolved ok/err/panic or cancelled at any await point in any order, take between epochs): at most one initialiser runs and none once initialised (state 1 iff exactly one live caller holds the guard; a value is stored iff state 2); a stored value is never replaced until take/drop; whatever a completed caller reports is the stored value; set hands its argument back exactly when its closure did not run; take re-opens the cell; every payload instance is in exactly one place at any time and is dropped exactly once (C04_accounting, C04_dropped_once). " + _TIE + " Compared fields: outcome (incl. reported value), state word, stored value, drop count." + _ATOM + " Theorems: C04_interleaved_single (one initialiser under every interleaving), C04_publication (whoever reads state == Initialized has the ptr::write of the stored value in its view, given store Release / load Acquire from the table)." + _SEARCH + _INJ,
        "note": "PARTIAL: blocking forms are outside the models (loom scenarios only); atomic polls in the poll-granular model.",
    },
    "C08": {
        "text": "Lean theorems over every finite history of the OnceCell model: once initialised and with no outstanding wake-up nobody polled is pending (C08_init); state 1 holds exactly while a live caller runs its initialiser, so Err, panic and cancellation all leave it (C08_not_stuck); in state 0 with no outstanding wake-up no polled get_or_init-style caller is pending, i.e. one was woken and took over (C08_handover); an error or panic is reported only in the poll in which the caller's own initialiser produced it (C08_blame). Blocking forms: C08_blocking_init_is_poll / C08_blocking_wait_is_poll prove that the code path on which a thread parked in get_or_init_blocking / get_or_try_init_blocking / set_blocking / wait_blocking resumes (listener already consumed, then reload of the state) transforms the cell exactly as the poll of the corresponding notified future does, so the poll-history theorems cover parked threads. Invariants: WInv, RInv (registration on active_initializers / passive_waiters, no stale listeners), KInv (wake bookkeeping; all listeners notified in state 2; a notified active listener in state 0). " + _TIE + (_CALLS % "C08") + _SEARCH + _INJW,
        "note": "PARTIAL: atomic polls; thread interleavings not covered; blocking forms covered through the resume-equals-poll theorems only (the park/unpark itself is not modelled). event-listener is modelled (notify_additional(usize::MAX) as 'notify every listener').",
    },
    "C05": {
        "text": "Blocking forms: C05_blocking_is_poll proves that the code path on which a thread parked in lock_blocking / lock_arc_blocking resumes (listener consumed, then the CAS / fetch_or of the loop it parked in) transforms the mutex exactly as the poll of the notified future does, so the poll-history theorems cover parked threads. No-lost-wake-up for the Mutex is a Lean theorem (invariant MInv: word, registration, wake bookkeeping, baton; induction over every history: any number of futures, cancellation at any moment of a future's life, completed futures kept alive, spurious polls and new wakers, bargers, both outcomes of the starvation test) about a model that includes event-listener's list semantics; the most-recent-waker clause is a separate theorem. " + _TIE + " Compared fields: outcome, wakers called, state word, listener count, notified flag." + (_CALLS % "C05") + _ATLOG + _SEARCH + _INJW,
        "note": "PARTIAL: polls are atomic in the model; thread interleavings and lock_blocking waiters are not covered by the theorem. event-listener is modelled, not verified (but executes in-process in every differential run).",
    },
    "C07": {
        "text": "No-lost-wake-up for the Semaphore is a Lean theorem (invariant WInv + Own, induction over every history: any number of futures, cancellation at any point, completed futures kept alive, add_permits(n) for any n) about a model that includes event-listener's list semantics. Blocking waiters: C07_blocking_is_poll proves that the code path on which a thread parked in acquire_blocking resumes (listener consumed first, then try_acquire, then - since fix 196e88b - the explicit forwarding) transforms the semaphore exactly as a poll of a notified future does, so the poll-history theorems cover the blocking forms. " + _TIE + " Compared fields: outcome, wakers called, counter, listener count, notified flag." + (_CALLS % "C07") + _ATLOG + _SEARCH + _INJW,
        "note": "PARTIAL: polls are atomic in the model; event-listener is modelled, not verified (but executes in-process in every differential run).",
    },
    "C13": {
        "text": "Part (a), barging disabled: while a lock operation is starved and live, try_lock/try_lock_arc return None and change nothing, and a new lock() future's first poll is Pending, locked or not - Lean theorems over every history (corollaries of the word invariant). Part (b), FIFO among later arrivals: theorem C13_fifo - if f is starved after ops0 and stays starved (neither completed nor dropped) through every prefix of ops1, then no lock operation alive at the end that started after f became starved (ids of dropped early arrivals may be reused, the theorem tracks that) has acquired the mutex. It rests on a queue-shape invariant proved for every reachable state (QI: only the head of lock_ops is ever notified; no entry carries the additional flag; while somebody is starved an outstanding notification implies the mutex is unlocked), from which a starved operation never re-queues, later arrivals stay behind it in the queue, and a notification never reaches them first. " + _TIE + " The 0.5 ms test is scripted through hook H1 so both outcomes occur at every evaluation point; the harness's FIFO monitor (grant order of starved operations) and try_lock probes run on the implementation." + _ATLOG + _SEARCH,
        "note": "PARTIAL: atomic (serialised) polls, which is the property's own hypothesis for part (b); the try_lock clause under thread interleavings is covered by the word invariant of the atomic-granularity Mutex model (C01_interleaved: st >= 2 while somebody is starved, so CAS(0,1) fails), not restated here.",
    },
}
